//! Seeded PRNG: SplitMix64 seeding a xoshiro256**. Every choice of a run
//! derives from one of these; nothing else in the crate is random.

#[derive(Clone, Debug)]
pub struct Rng {
    s: [u64; 4],
}

pub fn splitmix(x: &mut u64) -> u64 {
    *x = x.wrapping_add(0x9E37_79B9_7F4A_7C15);
    let mut z = *x;
    z = (z ^ (z >> 30)).wrapping_mul(0xBF58_476D_1CE4_E5B9);
    z = (z ^ (z >> 27)).wrapping_mul(0x94D0_49BB_1331_11EB);
    z ^ (z >> 31)
}

/// Mixes a root seed with a stream id and an index into a run seed.
pub fn mix(root: u64, stream: u64, index: u64) -> u64 {
    let mut x = root ^ stream.wrapping_mul(0xD6E8_FEB8_6659_FD93);
    let a = splitmix(&mut x);
    let mut y = a ^ index.wrapping_mul(0xA076_1D64_78BD_642F);
    splitmix(&mut y)
}

impl Rng {
    pub fn new(seed: u64) -> Rng {
        let mut x = seed;
        let s = [
            splitmix(&mut x),
            splitmix(&mut x),
            splitmix(&mut x),
            splitmix(&mut x),
        ];
        Rng { s }
    }

    pub fn next_u64(&mut self) -> u64 {
        let r = self.s[1].wrapping_mul(5).rotate_left(7).wrapping_mul(9);
        let t = self.s[1] << 17;
        self.s[2] ^= self.s[0];
        self.s[3] ^= self.s[1];
        self.s[1] ^= self.s[2];
        self.s[0] ^= self.s[3];
        self.s[2] ^= t;
        self.s[3] = self.s[3].rotate_left(45);
        r
    }

    /// Uniform in 0..n (n > 0).
    pub fn below(&mut self, n: u64) -> u64 {
        debug_assert!(n > 0);
        // multiply-shift; bias is irrelevant for our n
        ((self.next_u64() as u128 * n as u128) >> 64) as u64
    }

    pub fn range(&mut self, lo: u64, hi_incl: u64) -> u64 {
        lo + self.below(hi_incl - lo + 1)
    }

    pub fn irange(&mut self, lo: i64, hi_incl: i64) -> i64 {
        lo + self.below((hi_incl - lo + 1) as u64) as i64
    }

    pub fn chance(&mut self, num: u64, den: u64) -> bool {
        self.below(den) < num
    }

    pub fn pick<'a, T>(&mut self, xs: &'a [T]) -> &'a T {
        &xs[self.below(xs.len() as u64) as usize]
    }

    /// Picks an index according to integer weights.
    pub fn weighted(&mut self, w: &[u64]) -> usize {
        let total: u64 = w.iter().sum();
        let mut r = self.below(total);
        for (i, x) in w.iter().enumerate() {
            if r < *x {
                return i;
            }
            r -= *x;
        }
        w.len() - 1
    }

    pub fn shuffle<T>(&mut self, xs: &mut [T]) {
        for i in (1..xs.len()).rev() {
            let j = self.below(i as u64 + 1) as usize;
            xs.swap(i, j);
        }
    }

    pub fn fork(&mut self) -> Rng {
        Rng::new(self.next_u64())
    }
}

/// FNV-1a, used for event-log fingerprints.
#[derive(Clone, Copy, Debug)]
pub struct Fnv(pub u64);

impl Default for Fnv {
    fn default() -> Self {
        Fnv(0xcbf2_9ce4_8422_2325)
    }
}

impl Fnv {
    pub fn write(&mut self, bytes: &[u8]) {
        for b in bytes {
            self.0 ^= *b as u64;
            self.0 = self.0.wrapping_mul(0x0000_0100_0000_01B3);
        }
    }
    pub fn write_u64(&mut self, x: u64) {
        self.write(&x.to_le_bytes());
    }
}
