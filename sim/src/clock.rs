//! The simulated wall clock.
//!
//! The harness executable defines the libc symbol `clock_gettime`. Rust's std
//! (and therefore `SystemTime::now()`, chrono's `Local::now()`, …) is linked
//! statically into the executable, so its calls bind to this definition. While
//! a run is active, `CLOCK_REALTIME` reads return the simulated time; every
//! other clock id (and every read outside a run) is forwarded to the kernel
//! with a raw syscall, so `Instant`, timeouts and the watchdog stay real.

use std::sync::atomic::{AtomicBool, AtomicI64, AtomicU64, Ordering};

static ACTIVE: AtomicBool = AtomicBool::new(false);
static NOW_NS: AtomicI64 = AtomicI64::new(0);
static READS: AtomicU64 = AtomicU64::new(0);

#[no_mangle]
pub unsafe extern "C" fn clock_gettime(clk: libc::clockid_t, ts: *mut libc::timespec) -> libc::c_int {
    if clk == libc::CLOCK_REALTIME && ACTIVE.load(Ordering::Relaxed) {
        let now = NOW_NS.load(Ordering::SeqCst);
        READS.fetch_add(1, Ordering::Relaxed);
        (*ts).tv_sec = now.div_euclid(1_000_000_000) as libc::time_t;
        (*ts).tv_nsec = now.rem_euclid(1_000_000_000) as _;
        return 0;
    }
    libc::syscall(libc::SYS_clock_gettime, clk as libc::c_long, ts) as libc::c_int
}

/// Makes the simulated clock the process's wall clock, starting at `ns`.
pub fn activate(ns: i64) {
    NOW_NS.store(ns, Ordering::SeqCst);
    READS.store(0, Ordering::SeqCst);
    ACTIVE.store(true, Ordering::SeqCst);
}

pub fn deactivate() {
    ACTIVE.store(false, Ordering::SeqCst);
}

pub fn is_active() -> bool {
    ACTIVE.load(Ordering::SeqCst)
}

pub fn now_ns() -> i64 {
    NOW_NS.load(Ordering::SeqCst)
}

pub fn set_ns(ns: i64) {
    NOW_NS.store(ns, Ordering::SeqCst);
}

pub fn reads() -> u64 {
    READS.load(Ordering::Relaxed)
}

/// Real monotonic seconds (never simulated), for throughput and watchdogs.
pub fn mono_s() -> f64 {
    let mut ts = libc::timespec { tv_sec: 0, tv_nsec: 0 };
    unsafe {
        libc::syscall(libc::SYS_clock_gettime, libc::CLOCK_MONOTONIC as libc::c_long, &mut ts as *mut _);
    }
    ts.tv_sec as f64 + ts.tv_nsec as f64 * 1e-9
}
