use std::{fs, path::Path, process::exit};

use simkit::{
    driver::{self, CheckArgs},
    kernel, worlds, Tier,
};

fn arg_val(args: &[String], name: &str) -> Option<String> {
    args.iter().position(|a| a == name).and_then(|i| args.get(i + 1).cloned())
}

fn root_seed() -> u64 {
    std::env::var("VERIF_SEED").ok().and_then(|s| s.parse::<u64>().ok()).unwrap_or(driver::DEFAULT_SEED)
}

fn main() {
    let args: Vec<String> = std::env::args().collect();
    if args.len() < 2 {
        eprintln!("usage: simctl check <ID> [--tier quick|thorough] [--runs N] [--workers W] | replay <file> | minimise <in> <out> | worker ... | hashes <ID> <tier> <seed> <from> <to>");
        exit(2);
    }
    match args[1].as_str() {
        "check" => {
            let prop = args.get(2).cloned().unwrap_or_default();
            let tier = arg_val(&args, "--tier")
                .or_else(|| std::env::var("VERIF_TIER").ok())
                .map(|s| driver::parse_tier(&s))
                .unwrap_or(Tier::Quick);
            let runs = arg_val(&args, "--runs").and_then(|s| s.parse().ok());
            let workers = arg_val(&args, "--workers")
                .and_then(|s| s.parse().ok())
                .or_else(|| std::env::var("VERIF_WORKERS").ok().and_then(|s| s.parse().ok()))
                .unwrap_or_else(|| std::thread::available_parallelism().map(|n| n.get()).unwrap_or(4));
            let merge_key = arg_val(&args, "--merge");
            exit(driver::check(&CheckArgs { merge_key, prop, tier, root_seed: root_seed(), runs, workers }));
        }
        "worker" => {
            // worker <prop> <tier> <root> <from> <to> <outdir> <resultfile>
            driver::silence_stdio();
            driver::init_process();
            let prop = &args[2];
            let tier = driver::parse_tier(&args[3]);
            let root: u64 = args[4].parse().unwrap();
            let from: u64 = args[5].parse().unwrap();
            let to: u64 = args[6].parse().unwrap();
            let outdir = Path::new(&args[7]);
            let res = Path::new(&args[8]);
            let emit = args.iter().any(|a| a == "--hashes");
            let r = std::panic::catch_unwind(|| driver::worker(prop, tier, root, from, to, outdir, emit));
            let sum = match r {
                Ok(s) => s,
                Err(_) => {
                    let mut s = driver::WorkerSummary::default();
                    s.harness_errors.push(format!("worker panicked: {}", kernel::take_last_panic().unwrap_or_default()));
                    s
                }
            };
            fs::write(res, serde_json::to_vec(&sum).unwrap()).unwrap();
            simkit::fsutil::cleanup_process_dirs();
            exit(0);
        }
        "replay" => {
            let quiet = args.iter().any(|a| a == "--quiet");
            let trace = args.iter().any(|a| a == "--trace");
            let rp = match driver::load_replay(Path::new(&args[2])) {
                Ok(r) => r,
                Err(e) => {
                    eprintln!("{}", e);
                    exit(2);
                }
            };
            // keep our own stdout for the verdict, silence log4rs' prints
            let saved = unsafe { libc::dup(1) };
            driver::silence_stdio();
            driver::init_process();
            let (v, out) = driver::replay(&rp, trace);
            unsafe {
                libc::dup2(saved, 1);
            }
            simkit::fsutil::cleanup_process_dirs();
            if let Some(e) = &out.harness_error {
                println!("HARNESS-ERROR: {}", e);
                exit(2);
            }
            match v {
                Some(v) => {
                    let same_hash = out.summary.events_hash == rp.events_hash;
                    if !quiet {
                        if let Some(t) = &out.summary.trace {
                            for l in t {
                                println!("{}", l);
                            }
                        }
                        println!("reproduced {} [{}]: {}", v.invariant, v.signature, v.message);
                        println!("events_hash={} recorded={} identical={} list_fallbacks={}", out.summary.events_hash, rp.events_hash, same_hash, out.summary.list_fallbacks);
                        println!("VIOLATION property={} replay={}", rp.property, args[2]);
                    }
                    exit(if same_hash { 1 } else { 3 });
                }
                None => {
                    if !quiet {
                        println!("not reproduced: no {} violation (others: {:?})", rp.violation.invariant, out.violations);
                    }
                    exit(0);
                }
            }
        }
        "minimise" => {
            driver::silence_stdio();
            driver::init_process();
            let rp = match driver::load_replay(Path::new(&args[2])) {
                Ok(r) => r,
                Err(_) => exit(2),
            };
            let m = driver::minimise(&rp, 300);
            fs::write(&args[3], serde_json::to_vec_pretty(&m).unwrap()).unwrap();
            simkit::fsutil::cleanup_process_dirs();
            exit(0);
        }
        "determinism" => {
            let prop = args.get(2).cloned().unwrap_or_default();
            let runs = arg_val(&args, "--runs").and_then(|s| s.parse().ok()).unwrap_or(2000);
            exit(driver::determinism(&prop, Tier::Quick, root_seed(), runs));
        }
        "run-one" => {
            driver::silence_stdio();
            driver::init_process();
            let inp: driver::RunOneInput = serde_json::from_slice(&fs::read(&args[2]).unwrap()).unwrap();
            let out = worlds::execute(&inp.scenario, &worlds::ExecOpts { sched: inp.sched, trace: inp.trace });
            fs::write(&args[3], serde_json::to_vec(&driver::to_lite(&out)).unwrap()).unwrap();
            simkit::fsutil::cleanup_process_dirs();
            exit(0);
        }
        "gen" => {
            // gen <profile> <tier> <seed>: print a scenario (debugging aid)
            let tier = driver::parse_tier(&args[3]);
            let s = worlds::generate(&args[2], tier, args[4].parse().unwrap());
            println!("{}", serde_json::to_string_pretty(&s).unwrap());
        }
        other => {
            eprintln!("unknown subcommand {}", other);
            exit(2);
        }
    }
}
