//! simkit — deterministic simulation with fault injection for log4rs.
//! See /verif/DESIGN.md.

pub mod calendar;
pub mod clock;
pub mod driver;
pub mod frame;
pub mod fsutil;
pub mod kernel;
pub mod lin;
pub mod rng;
pub mod worlds;

use std::collections::BTreeMap;

use serde::{Deserialize, Serialize};

#[derive(Clone, Copy, Debug, PartialEq, Eq, Serialize, Deserialize)]
pub enum Tier {
    #[serde(rename = "quick")]
    Quick,
    #[serde(rename = "thorough")]
    Thorough,
}

#[derive(Clone, Debug, Serialize, Deserialize, PartialEq)]
pub struct Violation {
    pub property: String,
    /// invariant id, e.g. "C04-I2"
    pub invariant: String,
    pub message: String,
    /// stable classification used by the known-findings file
    pub signature: String,
}

#[derive(Clone, Debug, Serialize, Deserialize)]
pub enum Sched {
    Prng { seed: u64, policy: kernel::Policy },
    List(Vec<u32>),
}

#[derive(Debug, Default)]
pub struct Outcome {
    pub violations: Vec<Violation>,
    pub harness_error: Option<String>,
    pub summary: kernel::RunSummary,
    /// non-trivial for the property by the rule stated in the evidence
    pub nontrivial: bool,
    pub sim_ns: i64,
    pub probes: BTreeMap<String, u64>,
}

impl Outcome {
    pub fn probe(&mut self, name: &str, n: u64) {
        *self.probes.entry(name.to_string()).or_insert(0) += n;
    }
}

/// Collects violations during a run (first ones win; bounded).
#[derive(Default)]
pub struct Sink {
    v: std::sync::Mutex<Vec<Violation>>,
    probes: std::sync::Mutex<BTreeMap<String, u64>>,
}

impl Sink {
    pub fn fail(&self, property: &str, invariant: &str, signature: &str, message: String) {
        let mut v = self.v.lock().unwrap_or_else(|e| e.into_inner());
        if v.len() < 8 {
            kernel::note("violation", invariant);
            v.push(Violation {
                property: property.into(),
                invariant: invariant.into(),
                message,
                signature: signature.into(),
            });
        }
    }
    pub fn probe(&self, name: &str, n: u64) {
        *self
            .probes
            .lock()
            .unwrap_or_else(|e| e.into_inner())
            .entry(name.to_string())
            .or_insert(0) += n;
    }
    pub fn any(&self) -> bool {
        !self.v.lock().unwrap_or_else(|e| e.into_inner()).is_empty()
    }
    pub fn take(&self) -> (Vec<Violation>, BTreeMap<String, u64>) {
        (
            std::mem::take(&mut *self.v.lock().unwrap_or_else(|e| e.into_inner())),
            std::mem::take(&mut *self.probes.lock().unwrap_or_else(|e| e.into_inner())),
        )
    }
}
