//! Calendar oracle for the time trigger (C16-I2) and instants of interest.
//!
//! Uses only chrono's naive (zone-less) calendar arithmetic plus the UTC→local
//! direction of `Local` (always unambiguous). It never maps a local wall time
//! back to an instant through the zone, which is the operation the code under
//! test performs.

use chrono::{Datelike, Duration, Local, NaiveDate, NaiveDateTime, Offset, TimeZone, Timelike};
use serde::{Deserialize, Serialize};

#[derive(Clone, Copy, Debug, PartialEq, Eq, Serialize, Deserialize)]
pub enum Unit {
    Second,
    Minute,
    Hour,
    Day,
    Week,
    Month,
    Year,
}

impl Unit {
    pub fn word(&self) -> &'static str {
        match self {
            Unit::Second => "second",
            Unit::Minute => "minute",
            Unit::Hour => "hour",
            Unit::Day => "day",
            Unit::Week => "week",
            Unit::Month => "month",
            Unit::Year => "year",
        }
    }
    pub fn approx_secs(&self) -> i64 {
        match self {
            Unit::Second => 1,
            Unit::Minute => 60,
            Unit::Hour => 3600,
            Unit::Day => 86400,
            Unit::Week => 7 * 86400,
            Unit::Month => 30 * 86400,
            Unit::Year => 365 * 86400,
        }
    }
    pub const ALL: [Unit; 7] = [Unit::Second, Unit::Minute, Unit::Hour, Unit::Day, Unit::Week, Unit::Month, Unit::Year];
}

/// UTC offset in seconds of the process's zone (TZ) at the given instant.
/// Must be called on a thread created after TZ was set.
pub fn offset_at(utc_ns: i64) -> i32 {
    let secs = utc_ns.div_euclid(1_000_000_000);
    let nanos = utc_ns.rem_euclid(1_000_000_000) as u32;
    Local
        .timestamp_opt(secs, nanos)
        .single()
        .map(|d| d.offset().fix().local_minus_utc())
        .unwrap_or(0)
}

fn naive_from_ns(ns: i64) -> Option<NaiveDateTime> {
    chrono::DateTime::from_timestamp(ns.div_euclid(1_000_000_000), ns.rem_euclid(1_000_000_000) as u32).map(|d| d.naive_utc())
}

fn ns_from_naive(n: &NaiveDateTime) -> Option<i64> {
    n.and_utc().timestamp().checked_mul(1_000_000_000)?.checked_add(n.and_utc().timestamp_subsec_nanos() as i64)
}

/// Start of the unit containing local wall time `l`.
pub fn start_of_unit(l: &NaiveDateTime, u: Unit) -> Option<NaiveDateTime> {
    let d = l.date();
    Some(match u {
        Unit::Second => d.and_hms_opt(l.hour(), l.minute(), l.second())?,
        Unit::Minute => d.and_hms_opt(l.hour(), l.minute(), 0)?,
        Unit::Hour => d.and_hms_opt(l.hour(), 0, 0)?,
        Unit::Day => d.and_hms_opt(0, 0, 0)?,
        Unit::Week => (d - Duration::days(d.weekday().num_days_from_monday() as i64)).and_hms_opt(0, 0, 0)?,
        Unit::Month => NaiveDate::from_ymd_opt(d.year(), d.month(), 1)?.and_hms_opt(0, 0, 0)?,
        Unit::Year => NaiveDate::from_ymd_opt(d.year(), 1, 1)?.and_hms_opt(0, 0, 0)?,
    })
}

fn index_in_period(l: &NaiveDateTime, u: Unit) -> i64 {
    match u {
        Unit::Second => l.second() as i64,
        Unit::Minute => l.minute() as i64,
        Unit::Hour => l.hour() as i64,
        Unit::Day => l.ordinal0() as i64,
        Unit::Week => l.iso_week().week0() as i64,
        Unit::Month => l.month0() as i64,
        Unit::Year => l.year() as i64,
    }
}

/// The local wall time of the next boundary (Appendix D of DESIGN.md).
pub fn next_boundary_local(l: &NaiveDateTime, u: Unit, n: i64, modulate: bool) -> Option<NaiveDateTime> {
    let start = start_of_unit(l, u)?;
    let k = if modulate { n - index_in_period(l, u).rem_euclid(n) } else { n };
    match u {
        Unit::Second => start.checked_add_signed(Duration::try_seconds(k)?),
        Unit::Minute => start.checked_add_signed(Duration::try_minutes(k)?),
        Unit::Hour => start.checked_add_signed(Duration::try_hours(k)?),
        Unit::Day => start.checked_add_signed(Duration::try_days(k)?),
        Unit::Week => start.checked_add_signed(Duration::try_weeks(k)?),
        Unit::Month => {
            let months = start.year() as i64 * 12 + start.month0() as i64 + k;
            let y = months.div_euclid(12);
            let m = months.rem_euclid(12) as u32 + 1;
            NaiveDate::from_ymd_opt(i32::try_from(y).ok()?, m, 1)?.and_hms_opt(0, 0, 0)
        }
        Unit::Year => NaiveDate::from_ymd_opt(i32::try_from(start.year() as i64 + k).ok()?, 1, 1)?.and_hms_opt(0, 0, 0),
    }
}

#[derive(Debug, Clone, PartialEq)]
pub enum Expect {
    /// the offset is constant around the computation: S - delay must equal this instant (ns)
    Exactly(i64),
    /// the zone's offset changes between start-of-unit, now and S: only S > now is asserted
    OffsetChanges,
    /// outside chrono's representable range
    OutOfRange,
}

/// What the property prescribes for the boundary scheduled from `now_ns`,
/// given the instant `s_ns` the code actually scheduled (used only to test the
/// "offset does not change in between" proviso).
pub fn expected_boundary(now_ns: i64, s_minus_delay_ns: i64, u: Unit, n: i64, modulate: bool) -> Expect {
    let off = offset_at(now_ns);
    let l = match naive_from_ns(now_ns + off as i64 * 1_000_000_000) {
        Some(l) => l,
        None => return Expect::OutOfRange,
    };
    let start = match start_of_unit(&l, u) {
        Some(s) => s,
        None => return Expect::OutOfRange,
    };
    let next = match next_boundary_local(&l, u, n, modulate) {
        Some(x) => x,
        None => return Expect::OutOfRange,
    };
    let (start_utc, next_utc) = match (ns_from_naive(&start), ns_from_naive(&next)) {
        (Some(a), Some(b)) => (a - off as i64 * 1_000_000_000, b.saturating_sub(off as i64 * 1_000_000_000)),
        _ => return Expect::OutOfRange,
    };
    // beyond the range of ns arithmetic (year 2262): nothing exact can be asserted
    if next_utc > 9_000_000_000_000_000_000 {
        return Expect::OutOfRange;
    }
    // An actual instant beyond that range while the expected boundary is well inside it is a
    // wrong schedule (the "not representable" branch taken by mistake), not a reason to give up:
    // the proviso is then evaluated over the expected span only.
    let s_minus_delay_ns = if s_minus_delay_ns > 9_000_000_000_000_000_000 { next_utc } else { s_minus_delay_ns };
    // proviso: the zone's offset is the same over the whole span from the
    // start of the current unit to the later of the expected and the actual
    // boundary ("wherever the zone's UTC offset does not change in between").
    // Transitions come in pairs months apart, so sampling every 12 hours
    // cannot miss one; spans of more than 400 days always contain one in a
    // zone that has daylight-saving rules.
    let lo = start_utc - 1_000_000_000;
    let hi = next_utc.max(s_minus_delay_ns);
    let has_dst = std::env::var("TZ").map(|z| z.contains(',')).unwrap_or(true);
    const STEP: i64 = 12 * 3600 * 1_000_000_000;
    if has_dst {
        if (hi - lo) / STEP > 800 {
            return Expect::OffsetChanges;
        }
        let mut t = lo;
        while t < hi {
            if offset_at(t) != off {
                return Expect::OffsetChanges;
            }
            t += STEP;
        }
    }
    let probes = [lo, start_utc, next_utc, next_utc - 1_000_000_000, s_minus_delay_ns, s_minus_delay_ns - 1_000_000_000, hi];
    if probes.iter().any(|p| offset_at(*p) != off) {
        return Expect::OffsetChanges;
    }
    Expect::Exactly(next_utc)
}

pub const ZONES: [&str; 10] = [
    // offsets with a seconds part (local mean time): minute boundaries are not UTC minute boundaries
    "LMT-5:45:13",
    "LMT3:17:41",
    "UTC0",
    "XXX-5:45",
    "XXX12",
    "EST5EDT,M3.2.0,M11.1.0",
    "CET-1CEST,M3.5.0,M10.5.0/3",
    "AEST-10AEDT,M10.1.0,M4.1.0/3",
    "<+1030>-10:30<+11>-11,M10.1.0,M4.1.0",
    "<-03>3<-02>,M10.3.0/0,M2.3.0/0",
];

/// DST transition instants (UTC seconds) in 2024 for the zones above.
pub fn transitions(zone: &str) -> &'static [i64] {
    match zone {
        // 2024-03-10T07:00Z, 2024-11-03T06:00Z
        "EST5EDT,M3.2.0,M11.1.0" => &[1710054000, 1730613600],
        // 2024-03-31T01:00Z, 2024-10-27T01:00Z
        "CET-1CEST,M3.5.0,M10.5.0/3" => &[1711846800, 1729990800],
        // 2024-04-06T16:00Z (end), 2024-10-05T16:00Z (start)
        "AEST-10AEDT,M10.1.0,M4.1.0/3" => &[1712419200, 1728144000],
        // 2024-04-06T15:00Z (end), 2024-10-05T15:30Z (start)
        "<+1030>-10:30<+11>-11,M10.1.0,M4.1.0" => &[1712415600, 1728142200],
        // 2024-02-18T02:00Z (end, local midnight -02), 2024-10-20T03:00Z (start, local midnight -03)
        "<-03>3<-02>,M10.3.0/0,M2.3.0/0" => &[1708221600, 1729393200],
        _ => &[],
    }
}

/// Calendar anchors (UTC seconds): leap day, month/year ends, ISO-week-year edge.
pub const ANCHORS: [i64; 10] = [
    1709164800, // 2024-02-29T00:00Z
    1709251200, // 2024-03-01T00:00Z
    1704067200, // 2024-01-01T00:00Z
    1735689600, // 2025-01-01T00:00Z
    1735516800, // 2024-12-30T00:00Z (Monday of ISO week 1 of 2025)
    1706745600, // 2024-02-01T00:00Z
    1719792000, // 2024-07-01T00:00Z
    1609459200, // 2021-01-01T00:00Z (Friday; ISO week 53 of 2020)
    1677628800, // 2023-03-01T00:00Z (non-leap Feb end)
    1717200000, // 2024-06-01T00:00Z
];
