//! Scratch directories and directory snapshots.

use std::{
    collections::BTreeMap,
    fs, io,
    path::{Path, PathBuf},
};

#[derive(Clone, Debug, PartialEq, Eq)]
pub enum Entry {
    File(Vec<u8>),
    Dir,
}

pub type Tree = BTreeMap<String, Entry>;

/// Recursive, sorted snapshot of `root` (paths relative to it).
pub fn snapshot(root: &Path) -> Tree {
    let mut t = Tree::new();
    fn walk(root: &Path, dir: &Path, t: &mut Tree) {
        let mut names: Vec<PathBuf> = match fs::read_dir(dir) {
            Ok(rd) => rd.filter_map(|e| e.ok().map(|e| e.path())).collect(),
            Err(_) => return,
        };
        names.sort();
        for p in names {
            let rel = p.strip_prefix(root).unwrap().to_string_lossy().to_string();
            // follows symlinks: a directory reached through a link is walked like any other
            let md = match fs::metadata(&p) {
                Ok(m) => m,
                Err(_) => continue,
            };
            if md.is_dir() {
                t.insert(rel, Entry::Dir);
                walk(root, &p, t);
            } else {
                t.insert(rel, Entry::File(fs::read(&p).unwrap_or_default()));
            }
        }
    }
    walk(root, root, &mut t);
    t
}

pub fn copy_tree(src: &Path, dst: &Path) -> io::Result<()> {
    fs::create_dir_all(dst)?;
    for e in fs::read_dir(src)? {
        let e = e?;
        let p = e.path();
        let d = dst.join(e.file_name());
        if e.file_type()?.is_dir() {
            copy_tree(&p, &d)?;
        } else {
            fs::copy(&p, &d)?;
        }
    }
    Ok(())
}

pub fn scratch_base() -> PathBuf {
    let shm = Path::new("/dev/shm");
    let base = if shm.is_dir() { shm.to_path_buf() } else { std::env::temp_dir() };
    base.join("log4rs-verif").join(std::process::id().to_string())
}

/// A second scratch base on a different filesystem than `scratch_base`, if any.
pub fn second_mount_base() -> Option<PathBuf> {
    use std::os::unix::fs::MetadataExt;
    let a = scratch_base();
    fs::create_dir_all(&a).ok()?;
    let b = std::env::temp_dir().join("log4rs-verif-x").join(std::process::id().to_string());
    fs::create_dir_all(&b).ok()?;
    let da = fs::metadata(&a).ok()?.dev();
    let db = fs::metadata(&b).ok()?.dev();
    if da != db {
        Some(b)
    } else {
        let _ = fs::remove_dir_all(&b);
        None
    }
}

/// Removes every scratch directory of this process (both mounts).
pub fn cleanup_process_dirs() {
    let _ = fs::remove_dir_all(scratch_base());
    let _ = fs::remove_dir_all(std::env::temp_dir().join("log4rs-verif-x").join(std::process::id().to_string()));
}

pub struct Scratch {
    pub root: PathBuf,
}

impl Scratch {
    /// A fresh directory that no earlier run of this process has used: state a
    /// process keeps per path (in log4rs or below it) cannot leak from one run
    /// into the next.
    pub fn new(tag: &str) -> Scratch {
        static SEQ: std::sync::atomic::AtomicU64 = std::sync::atomic::AtomicU64::new(0);
        let n = SEQ.fetch_add(1, std::sync::atomic::Ordering::Relaxed);
        let root = scratch_base().join(format!("{}{}", tag, n));
        let _ = fs::remove_dir_all(&root);
        fs::create_dir_all(&root).expect("create scratch");
        Scratch { root }
    }
    pub fn path(&self, rel: &str) -> PathBuf {
        self.root.join(rel)
    }
}

impl Drop for Scratch {
    fn drop(&mut self) {
        let _ = fs::remove_dir_all(&self.root);
    }
}

pub fn describe(t: &Tree) -> String {
    let mut s = String::new();
    for (k, v) in t {
        match v {
            Entry::Dir => s.push_str(&format!("{}/ ", k)),
            Entry::File(b) => s.push_str(&format!("{}[{}] ", k, b.len())),
        }
    }
    s
}

/// While alive, file descriptors 1 and 2 of this process refer to /dev/full:
/// every write to stdout or stderr fails with ENOSPC. Restored on drop.
pub struct BrokenStd {
    saved: [i32; 2],
}

impl BrokenStd {
    pub fn install() -> BrokenStd {
        use std::io::Write;
        let _ = std::io::stdout().flush();
        unsafe {
            let saved = [libc::dup(1), libc::dup(2)];
            let fd = libc::open(b"/dev/full\0".as_ptr() as *const libc::c_char, libc::O_WRONLY);
            if fd >= 0 {
                libc::dup2(fd, 1);
                libc::dup2(fd, 2);
                libc::close(fd);
            }
            BrokenStd { saved }
        }
    }
}

impl Drop for BrokenStd {
    fn drop(&mut self) {
        unsafe {
            for (i, s) in self.saved.iter().enumerate() {
                if *s >= 0 {
                    libc::dup2(*s, i as i32 + 1);
                    libc::close(*s);
                }
            }
        }
    }
}
