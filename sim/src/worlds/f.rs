//! World F — the plain file appender (C04).
//!
//! Real `FileAppender` on a real file (tmpfs), 1–4 simulated threads appending
//! self-framing records, ≤ 3 phases separated by clean restarts in either open
//! mode. After every single `append` return the acting thread re-reads the
//! file through an independent handle and checks C04-I1..I6 against the
//! reference model (the set of invoked / acknowledged records).

use std::{
    collections::{HashMap, HashSet},
    fs,
    sync::{Arc, Mutex},
};

use log4rs::append::{file::FileAppender, Append};
use serde::{Deserialize, Serialize};

use super::{
    common::{self, EncKind, RunCfg},
    ExecOpts,
};
use crate::{
    frame::{self, RecId},
    fsutil::Scratch,
    kernel,
    rng::Rng,
    Outcome, Sched, Sink, Tier,
};

#[derive(Clone, Debug, Serialize, Deserialize, PartialEq)]
pub struct Rec {
    pub n: u16,
    pub len: u32,
    /// afterwards the same thread appends a record of its own to a second
    /// file appender (same encoder kind, another path)
    #[serde(default)]
    pub sib: bool,
    /// before that, the same thread offers the record to an appender whose
    /// "file" is /dev/full: every write(2) fails with ENOSPC
    #[serde(default)]
    pub full: bool,
    /// (profile C04-quota) during this append the file may grow by this many
    /// bytes only (RLIMIT_FSIZE): the write that crosses the limit is cut short,
    /// the next one fails
    #[serde(default)]
    pub quota: Option<u16>,
    /// (with quota) the limit stays in force for the following record as well
    #[serde(default)]
    pub hold: bool,
}

#[derive(Clone, Debug, Serialize, Deserialize, PartialEq)]
pub struct Phase {
    pub append: bool,
    /// one op list per thread
    pub threads: Vec<Vec<Rec>>,
    /// an extra thread that only reads the file this many times, at arbitrary
    /// points of the schedule, and checks its shape
    #[serde(default)]
    pub observations: u8,
    /// reload order: this phase's appender is built while the previous one is
    /// still alive, and the previous one keeps writing the records with even
    /// `n` during this phase (two live appenders on one path, append mode)
    #[serde(default)]
    pub handover: bool,
}

#[derive(Clone, Debug, Serialize, Deserialize, PartialEq)]
pub struct Scn {
    /// pre-existing file content (None = file absent)
    pub pre: Option<Vec<u8>>,
    pub nested_dirs: bool,
    pub encoder: EncKind,
    pub phases: Vec<Phase>,
    /// records (tid, n) whose encoder returns Err part-way (profile C04-encfail)
    #[serde(default)]
    pub enc_fail: Vec<(u16, u16)>,
    /// profile C04-quota: one writer, a byte-exact reference model of the
    /// appender's buffer, writes that fail half-way
    #[serde(default)]
    pub quota: bool,
    pub sched_seed: u64,
    pub policy: kernel::Policy,
}

pub fn gen_len(rng: &mut Rng) -> u32 {
    match rng.weighted(&[1, 6, 2, 1, 1, 1, 2]) {
        0 => 0,
        1 => rng.range(1, 32) as u32,
        2 => rng.range(33, 600) as u32,
        3 => rng.range(990, 1010) as u32,
        4 => rng.range(1011, 1040) as u32,
        5 => rng.range(1041, 2100) as u32,
        _ => rng.range(2048, 5120) as u32,
    }
}

pub fn gen_blob(rng: &mut Rng) -> Vec<u8> {
    let n = match rng.weighted(&[2, 4, 2, 1]) {
        0 => 0,
        1 => rng.range(1, 40),
        2 => rng.range(41, 1500),
        _ => rng.range(1500, 4000),
    } as usize;
    (0..n)
        .map(|i| {
            let c = b' ' + ((rng.below(90) as u8).wrapping_add(i as u8) % 90);
            if i % 37 == 36 {
                b'\n'
            } else {
                c
            }
        })
        .collect()
}

pub fn generate_encfail(rng: &mut Rng, tier: Tier) -> Scn {
    let mut s = generate(rng, tier);
    for ph in s.phases.iter_mut() {
        // a failed encode leaves a fragment in the old appender's buffer: not combined with handover
        ph.handover = false;
    }
    if !matches!(s.encoder, EncKind::Chunk { .. }) {
        s.encoder = EncKind::Chunk { seed: rng.next_u64() };
    }
    let mut tid_base = 0u16;
    for ph in &s.phases {
        for (ti, t) in ph.threads.iter().enumerate() {
            for r in t {
                if rng.chance(1, 4) {
                    s.enc_fail.push((tid_base + ti as u16, r.n));
                }
            }
        }
        tid_base += ph.threads.len() as u16;
    }
    s
}

/// Stock encoders only (pattern, JSON), an appender on a full disk (/dev/full)
/// and a second healthy appender on another path, all used by the same threads.
pub fn generate_stock(rng: &mut Rng, tier: Tier) -> Scn {
    let mut s = generate(rng, tier);
    s.encoder = if rng.chance(2, 3) { EncKind::Json } else { EncKind::Pattern };
    let with_sib = rng.chance(3, 4);
    let with_full = rng.chance(2, 3);
    for ph in s.phases.iter_mut() {
        ph.handover = false;
        for t in ph.threads.iter_mut() {
            for r in t.iter_mut() {
                r.sib = with_sib && rng.chance(1, 2);
                r.full = with_full && rng.chance(1, 2);
            }
        }
    }
    s
}

/// Beyond small cases: single pieces larger than 64 KiB, and more writer
/// threads than any small table or counter threshold (17-24).
pub fn generate_scale(rng: &mut Rng, tier: Tier) -> Scn {
    let mut s = generate(rng, tier);
    for ph in s.phases.iter_mut() {
        ph.handover = false;
    }
    if rng.chance(1, 2) {
        const BIG: [u32; 8] = [8193, 65500, 65537, 70000, 100000, 131073, 200000, 262145];
        s.encoder = match rng.below(3) {
            0 => EncKind::Pattern,
            1 => EncKind::Json,
            _ => EncKind::Chunk { seed: rng.next_u64() },
        };
        for ph in s.phases.iter_mut() {
            for t in ph.threads.iter_mut() {
                for r in t.iter_mut() {
                    if rng.chance(1, 2) {
                        r.len = *rng.pick(&BIG) + rng.below(2) as u32;
                    }
                }
            }
        }
    } else {
        let n = rng.range(17, 24) as usize;
        s.phases.truncate(1);
        let ph = &mut s.phases[0];
        ph.observations = 0;
        ph.threads = (0..n).map(|_| (0..rng.range(1, 2) as u16).map(|k| Rec { n: k, len: if rng.chance(1, 6) { 1500 } else { rng.range(1, 60) as u32 }, sib: false, full: false, quota: None, hold: false }).collect()).collect();
    }
    s
}

/// One writer at a time, writes that fail half-way (a file size limit that
/// falls inside a record), encoder failures in between: fault sequences at
/// the write(2) and `Encode` seams, judged by a byte-exact model.
pub fn generate_quota(rng: &mut Rng, tier: Tier) -> Scn {
    let mut s = generate(rng, tier);
    s.quota = true;
    if rng.chance(2, 3) && !matches!(s.encoder, EncKind::Chunk { .. }) {
        s.encoder = EncKind::Chunk { seed: rng.next_u64() };
    }
    let mut tid_base = 0u16;
    for ph in s.phases.iter_mut() {
        ph.handover = false;
        ph.threads.truncate(1);
        // a few more records: the interesting histories are failure, failure, recovery
        while ph.threads[0].len() < 3 {
            let n = ph.threads[0].len() as u16;
            ph.threads[0].push(Rec { n, len: gen_len(rng), sib: false, full: false, quota: None, hold: false });
        }
        for (i, r) in ph.threads[0].iter_mut().enumerate() {
            r.n = i as u16;
            if rng.chance(1, 3) {
                r.quota = Some(rng.below(r.len as u64 + 12) as u16);
                r.hold = rng.chance(1, 2);
            }
            if matches!(s.encoder, EncKind::Chunk { .. }) && rng.chance(1, 4) {
                s.enc_fail.push((tid_base, r.n));
            }
        }
        tid_base += 1;
    }
    s
}

pub fn generate(rng: &mut Rng, tier: Tier) -> Scn {
    let big = tier == Tier::Thorough && rng.chance(1, 4);
    let nphases = rng.weighted(&[6, 3, 1]) + 1;
    let mut phases = vec![];
    let mut next_n: HashMap<u16, u16> = HashMap::new();
    let mut tid_base = 0u16;
    for _ in 0..nphases {
        let nthreads = if big { rng.range(2, 4) } else { rng.weighted(&[2, 5, 3, 1]) as u64 + 1 } as usize;
        let mut threads: Vec<Vec<Rec>> = vec![];
        for t in 0..nthreads {
            let nrec = if big { rng.range(2, 6) } else { rng.weighted(&[1, 4, 4, 2, 1]) as u64 } as usize;
            let tid = tid_base + t as u16;
            let mut v = vec![];
            for _ in 0..nrec {
                let n = next_n.entry(tid).or_insert(0);
                v.push(Rec { n: *n, len: gen_len(rng), sib: false, full: false, quota: None, hold: false });
                *n += 1;
            }
            threads.push(v);
        }
        tid_base += nthreads as u16;
        let append = rng.chance(3, 4);
        let prev_append = phases.last().map(|p: &Phase| p.append).unwrap_or(false);
        let handover = !phases.is_empty() && append && prev_append && rng.chance(1, 3);
        if handover {
            // two live appenders share no lock: only records that reach the file in one
            // write(2) (smaller than the 1 KiB buffer) are covered by the property then
            for t in threads.iter_mut() {
                for r in t.iter_mut() {
                    r.len = r.len.min(900);
                }
            }
        }
        phases.push(Phase { append, threads, observations: if rng.chance(1, 2) { rng.range(1, 5) as u8 } else { 0 }, handover });
    }
    Scn {
        pre: if rng.chance(1, 2) { Some(gen_blob(rng)) } else { None },
        nested_dirs: rng.chance(1, 4),
        encoder: if rng.chance(2, 3) { EncKind::Chunk { seed: rng.next_u64() } } else { EncKind::Pattern },
        phases,
        enc_fail: vec![],
        quota: false,
        sched_seed: rng.next_u64(),
        policy: common::gen_policy(rng),
    }
}

struct Model {
    /// bytes that must be the file's prefix during this phase
    base: Vec<u8>,
    /// invoked records of this phase: id -> (invoke stamp, return stamp)
    inv: HashMap<RecId, (u64, Option<u64>)>,
    /// records whose append returned Err after an injected encoder failure
    failed: HashSet<RecId>,
    switched_inside: bool,
}

const P: &str = "C04";

fn check_file(
    sink: &Sink,
    m: &Model,
    data: &[u8],
    just_acked: Option<RecId>,
    quiescent: bool,
    append_mode: bool,
    json: bool,
) {
    // I6
    if !data.starts_with(&m.base) {
        let inv = if append_mode { "pre-existing content is no longer the file's prefix" } else { "content written after the truncating open disappeared" };
        sink.fail(P, "C04-I6", "prefix", format!("{} (file {} bytes, expected prefix {} bytes)", inv, data.len(), m.base.len()));
        return;
    }
    // strict parse, except that fragments of records whose append failed (an
    // injected encoder error) may remain anywhere: unacknowledged data may be
    // present or absent, never anything else
    let decoded;
    let (data, from): (&[u8], usize) = if json {
        // an unterminated last line is legitimate only while some record is being written
        // (or a failed one left a fragment behind)
        let open_tail = !m.failed.is_empty() || (!quiescent && m.inv.values().any(|(_, r)| r.is_none()));
        match common::decode_json(&data[m.base.len()..], !m.failed.is_empty(), open_tail) {
            Ok(d) => {
                decoded = d;
                (&decoded, 0)
            }
            Err((off, why)) => {
                sink.fail(P, "C04-I2", "garbage", format!("file is not a concatenation of whole records at offset {}: {}", m.base.len() + off, why));
                return;
            }
        }
    } else {
        (data, m.base.len())
    };
    let items = frame::scan(data, from);
    let n_items = items.len();
    let mut parsed = frame::Parsed { recs: vec![], torn: None, garbage: None };
    for (i, it) in items.into_iter().enumerate() {
        match it {
            frame::Item::Whole { id, start, end } => parsed.recs.push((id, start, end)),
            frame::Item::Torn { id, start, .. } => {
                let of_failed = match id {
                    Some(id) => m.failed.contains(&id),
                    None => !m.failed.is_empty(),
                };
                if of_failed {
                    continue;
                }
                if i + 1 == n_items {
                    parsed.torn = Some((id, start));
                } else {
                    parsed.garbage = Some((start, format!("torn record {:?} in the middle of the file", id)));
                    break;
                }
            }
            frame::Item::Junk { start, why, .. } => {
                parsed.garbage = Some((start, why));
                break;
            }
        }
    }
    if let Some((off, why)) = &parsed.garbage {
        sink.fail(P, "C04-I2", "garbage", format!("file is not a concatenation of whole records at offset {}: {}", off, why));
        return;
    }
    if let Some((id, off)) = &parsed.torn {
        let ok = !quiescent
            && match id {
                Some(id) => m.inv.get(id).map(|(_, r)| r.is_none()).unwrap_or(false),
                None => m.inv.values().any(|(_, r)| r.is_none()),
            };
        if !ok {
            sink.fail(P, "C04-I2", "torn", format!("torn record {:?} at offset {} that is not in flight", id, off));
            return;
        }
    }
    let mut seen: HashSet<RecId> = HashSet::new();
    for (id, _, _) in &parsed.recs {
        if !seen.insert(*id) {
            sink.fail(P, "C04-I3", "duplicate", format!("record {} appears twice", id));
            return;
        }
        match m.inv.get(id) {
            None => {
                sink.fail(P, "C04-I3", "phantom", format!("record {} in file was never written in this phase", id));
                return;
            }
            Some((_, None)) if quiescent && !m.failed.contains(id) => {
                sink.fail(P, "C04-I3", "phantom", format!("record {} in file but its append never returned Ok", id));
                return;
            }
            _ => {}
        }
    }
    if let Some(id) = just_acked {
        if !seen.contains(&id) {
            sink.fail(P, "C04-I1", "ack-not-visible", format!("append of {} returned Ok but the record is not readable from the file", id));
            return;
        }
    }
    for (id, (_, ret)) in &m.inv {
        if ret.is_some() && !seen.contains(id) {
            sink.fail(P, "C04-I3", "lost", format!("acknowledged record {} is missing from the file", id));
            return;
        }
    }
    // I4 per-thread order, I5 real-time order
    let mut last_n: HashMap<u16, u16> = HashMap::new();
    for (id, _, _) in &parsed.recs {
        if let Some(prev) = last_n.get(&id.tid) {
            if *prev >= id.n {
                sink.fail(P, "C04-I4", "thread-order", format!("thread {}'s record {} appears after its record {}", id.tid, id.n, prev));
                return;
            }
        }
        last_n.insert(id.tid, id.n);
    }
    for i in 0..parsed.recs.len() {
        for j in i + 1..parsed.recs.len() {
            let a = parsed.recs[i].0; // earlier in file
            let b = parsed.recs[j].0; // later in file
            if let (Some((inv_a, _)), Some((_, Some(ret_b)))) = (m.inv.get(&a), m.inv.get(&b)) {
                if ret_b < inv_a {
                    sink.fail(P, "C04-I5", "realtime-order", format!("append of {} returned before append of {} was invoked, yet {} precedes it in the file", b, a, a));
                    return;
                }
            }
        }
    }
}

/// RLIMIT_FSIZE for this process while alive (SIGXFSZ is ignored: the write fails with EFBIG).
struct FileSizeLimit;

impl FileSizeLimit {
    fn set(bytes: u64) -> FileSizeLimit {
        unsafe {
            libc::signal(libc::SIGXFSZ, libc::SIG_IGN);
            let mut cur = libc::rlimit { rlim_cur: 0, rlim_max: 0 };
            libc::getrlimit(libc::RLIMIT_FSIZE, &mut cur);
            let l = libc::rlimit { rlim_cur: bytes, rlim_max: cur.rlim_max };
            libc::setrlimit(libc::RLIMIT_FSIZE, &l);
        }
        FileSizeLimit
    }
}

impl Drop for FileSizeLimit {
    fn drop(&mut self) {
        unsafe {
            let mut cur = libc::rlimit { rlim_cur: 0, rlim_max: 0 };
            libc::getrlimit(libc::RLIMIT_FSIZE, &mut cur);
            let l = libc::rlimit { rlim_cur: cur.rlim_max, rlim_max: cur.rlim_max };
            libc::setrlimit(libc::RLIMIT_FSIZE, &l);
        }
    }
}

fn execute_quota(scn: &Scn, opts: &ExecOpts) -> Outcome {
    use log4rs::encode::Encode;
    let mut out = Outcome::default();
    let scratch = Scratch::new("f");
    let path = if scn.nested_dirs { scratch.path("a/b/f.log") } else { scratch.path("f.log") };
    if let Some(pre) = &scn.pre {
        if let Some(p) = path.parent() {
            fs::create_dir_all(p).unwrap();
        }
        fs::write(&path, pre).unwrap();
    }
    let sched = opts.sched.clone().unwrap_or(Sched::Prng { seed: scn.sched_seed, policy: scn.policy.clone() });
    let k = common::begin(RunCfg { sched, trace: opts.trace, start_ns: common::T0_NS, tz: None, faults: vec![], crash: None, rand_script: vec![], step_cap: 20_000 });
    let sink = Arc::new(Sink::default());
    let scn2 = scn.clone();
    let sink2 = sink.clone();
    let body: Box<dyn FnOnce() + Send> = Box::new(move || {
        let scn = scn2;
        let sink = sink2;
        let make = |quiet: bool| -> Box<dyn Encode> {
            match &scn.encoder {
                EncKind::Chunk { seed } => Box::new(common::ChunkEncoder { seed: *seed, fail: scn.enc_fail.clone(), quiet }),
                e => common::make_encoder(e),
            }
        };
        let mut model = common::BufFileModel { buf: vec![], file: scn.pre.clone().unwrap_or_default(), limit: None };
        let mut tid = 0u16;
        for ph in &scn.phases {
            let appender = match FileAppender::builder().append(ph.append).encoder(make(false)).build(&path) {
                Ok(a) => a,
                Err(e) => {
                    sink.fail(P, "C04-E0", "build-failed", format!("building the appender failed although nothing was injected: {}", e));
                    return;
                }
            };
            if !ph.append {
                model.file.clear();
            }
            let reference = make(true);
            let mut check = Model { base: model.file.clone(), inv: HashMap::new(), failed: HashSet::new(), switched_inside: false };
            let mut limit: Option<FileSizeLimit> = None;
            for r in ph.threads.first().map(|t| t.as_slice()).unwrap_or(&[]) {
                let id = RecId { tid, n: r.n };
                let text = frame::encode(id, r.len as usize);
                if let Some(q) = r.quota {
                    let on_disk = fs::metadata(&path).map(|m| m.len()).unwrap_or(0);
                    limit = None; // lifted first: the old guard must not outlive the new limit
                    let _ = &limit;
                    limit = Some(FileSizeLimit::set(on_disk + q as u64));
                    model.limit = Some(model.file.len() + q as usize);
                    sink.probe("appends_under_a_file_size_limit", 1);
                }
                kernel::note("invoke", &format!("{} len={} limit={:?}", id, r.len, model.limit.map(|l| l - model.file.len().min(l))));
                check.inv.insert(id, (kernel::stamp(), None));
                let rec_args = format_args!("{}", text);
                let record = log::Record::builder().level(log::Level::Info).target("sim").args(rec_args).build();
                let res = appender.append(&record);
                // the same record through the reference model
                let want = match reference.encode(&mut model, &record) {
                    Ok(()) => model.flush_buf().map_err(anyhow::Error::from),
                    Err(e) => Err(e),
                };
                let keep = r.hold && r.quota.is_some();
                if !keep {
                    limit = None;
                    model.limit = None;
                }
                kernel::note("return", &format!("{} {}", id, if res.is_ok() { "ok" } else { "err" }));
                match (&res, &want) {
                    (Ok(()), Ok(())) => {
                        check.inv.get_mut(&id).unwrap().1 = Some(kernel::stamp());
                    }
                    (Err(_), Err(_)) => {
                        check.failed.insert(id);
                        sink.probe("appends_failed_as_the_model_says", 1);
                    }
                    (Ok(()), Err(e)) => {
                        sink.fail(P, "C04-I1", "ack-of-failed-write", format!("append of {} returned Ok although not all of it can have been written ({:#})", id, e));
                        return;
                    }
                    (Err(e), Ok(())) => {
                        sink.fail(P, "C04-E0", "append-failed", format!("append of {} failed although nothing stands in its way: {:#}", id, e));
                        return;
                    }
                }
                let data = fs::read(&path).unwrap_or_default();
                if data != model.file {
                    let common_len = data.iter().zip(model.file.iter()).take_while(|(a, b)| a == b).count();
                    sink.fail(
                        P,
                        "C04-I2",
                        "exact-content",
                        format!("after the append of {} ({}) the file holds {} bytes, the reference model {} (first difference at offset {}): records in the file {:?}, in the model {:?}", id, if res.is_ok() { "ok" } else { "err" }, data.len(), model.file.len(), common_len, frame::whole_ids(&data).iter().map(|i| i.to_string()).collect::<Vec<_>>(), frame::whole_ids(&model.file).iter().map(|i| i.to_string()).collect::<Vec<_>>()),
                    );
                    return;
                }
                check_file(&sink, &check, &data, if res.is_ok() { Some(id) } else { None }, false, ph.append, false);
                kernel::point("op.done");
            }
            drop(limit);
            model.limit = None;
            // closing the appender writes out what its buffer still holds
            drop(appender);
            let _ = model.flush_buf();
            let data = fs::read(&path).unwrap_or_default();
            if data != model.file {
                sink.fail(P, "C04-I2", "exact-content", format!("after closing the appender the file holds {} bytes, the reference model {}", data.len(), model.file.len()));
                return;
            }
            tid += ph.threads.len().max(1) as u16;
        }
    });
    let panics = k.run_phase(vec![body], common::WATCHDOG_S);
    // whatever happened, the limit must not outlive the run
    drop(FileSizeLimit);
    for (t, msg) in panics {
        if t == usize::MAX {
            out.harness_error = Some("STALL: a simulated thread did not reach a decision point".into());
        } else {
            sink.fail(P, "C04-E0", "panic", format!("thread panicked: {}", msg));
        }
    }
    if let Some(a) = k.abort_reason() {
        out.harness_error = Some(format!("run aborted: {:?}", a));
    }
    let (summary, now) = common::end(&k);
    let (v, probes) = sink.take();
    out.violations = v;
    out.probes = probes;
    out.nontrivial = out.probes.get("appends_under_a_file_size_limit").copied().unwrap_or(0) > 0;
    out.sim_ns = now - common::T0_NS;
    out.summary = summary;
    out
}

pub fn execute(scn: &Scn, opts: &ExecOpts) -> Outcome {
    if scn.quota {
        return execute_quota(scn, opts);
    }
    let mut out = Outcome::default();
    let scratch = Scratch::new("f");
    let path = if scn.nested_dirs { scratch.path("a/b/f.log") } else { scratch.path("f.log") };
    if let Some(pre) = &scn.pre {
        if let Some(p) = path.parent() {
            fs::create_dir_all(p).unwrap();
        }
        fs::write(&path, pre).unwrap();
    }
    let sched = opts
        .sched
        .clone()
        .unwrap_or(Sched::Prng { seed: scn.sched_seed, policy: scn.policy.clone() });
    let k = common::begin(RunCfg {
        sched,
        trace: opts.trace,
        start_ns: common::T0_NS,
        tz: None,
        faults: vec![],
        crash: None,
        rand_script: vec![],
        step_cap: 20_000,
    });
    let sink = Arc::new(Sink::default());
    let mut base: Vec<u8> = scn.pre.clone().unwrap_or_default();
    let mut any_switch_inside = false;
    let mut previous: Option<Arc<FileAppender>> = None;
    let json = scn.encoder == EncKind::Json;
    let with_sib = scn.phases.iter().any(|p| p.threads.iter().flatten().any(|r| r.sib));
    let sib_path = scratch.path("sibling/g.log");
    let with_full = scn.phases.iter().any(|p| p.threads.iter().flatten().any(|r| r.full));

    'phases: for (pi, ph) in scn.phases.iter().enumerate() {
        let handover = ph.handover && ph.append && previous.is_some() && scn.enc_fail.is_empty();
        if !handover {
            previous = None; // the old appender is closed before the new one opens
        }
        let appender = match FileAppender::builder()
            .append(ph.append)
            .encoder(match &scn.encoder {
                EncKind::Chunk { seed } if !scn.enc_fail.is_empty() => Box::new(common::ChunkEncoder { seed: *seed, fail: scn.enc_fail.clone(), quiet: false }),
                e => common::make_encoder(e),
            })
            .build(&path)
        {
            Ok(a) => Arc::new(a),
            Err(e) => {
                sink.fail(P, "C04-E0", "build-failed", format!("building the appender failed although nothing was injected: {}", e));
                break 'phases;
            }
        };
        if !ph.append {
            base.clear();
            // truncation must happen at open time
            match fs::read(&path) {
                Ok(d) if d.is_empty() => {}
                Ok(d) => {
                    sink.fail(P, "C04-I6", "not-truncated", format!("truncate mode left {} bytes after open", d.len()));
                    break 'phases;
                }
                Err(e) => {
                    out.harness_error = Some(format!("read after build: {}", e));
                    break 'phases;
                }
            }
        } else {
            match fs::read(&path) {
                Ok(d) if d == base => {}
                Ok(d) => {
                    sink.fail(P, "C04-I6", "open-changed-content", format!("append-mode open changed the file ({} -> {} bytes)", base.len(), d.len()));
                    break 'phases;
                }
                Err(e) => {
                    out.harness_error = Some(format!("read after build: {}", e));
                    break 'phases;
                }
            }
        }
        k.note("phase", &format!("{} append={}", pi, ph.append));
        let model = Arc::new(Mutex::new(Model { base: base.clone(), inv: HashMap::new(), failed: HashSet::new(), switched_inside: false }));
        let in_cs = Arc::new(Mutex::new(0u32)); // threads between invoke and return
        // the second appender: never fails, so its file tolerates no fragment at all
        let sibling = if with_sib {
            match FileAppender::builder().append(true).encoder(common::make_encoder(&scn.encoder)).build(&sib_path) {
                Ok(a) => Some(Arc::new(a)),
                Err(e) => {
                    sink.fail(P, "C04-E0", "build-failed", format!("building the second appender failed although nothing was injected: {}", e));
                    break 'phases;
                }
            }
        } else {
            None
        };
        let full_disk = if with_full {
            match FileAppender::builder().append(true).encoder(common::make_encoder(&scn.encoder)).build("/dev/full") {
                Ok(a) => Some(Arc::new(a)),
                Err(e) => {
                    out.harness_error = Some(format!("/dev/full cannot be opened: {}", e));
                    break 'phases;
                }
            }
        } else {
            None
        };
        let sib_model = Arc::new(Mutex::new(Model { base: fs::read(&sib_path).unwrap_or_default(), inv: HashMap::new(), failed: HashSet::new(), switched_inside: false }));
        let mut bodies: Vec<Box<dyn FnOnce() + Send>> = vec![];
        let tid_base: u16 = scn.phases[..pi].iter().map(|p| p.threads.len() as u16).sum();
        for (ti, recs) in ph.threads.iter().enumerate() {
            let recs = recs.clone();
            let appender = appender.clone();
            let model = model.clone();
            let sink = sink.clone();
            let path = path.clone();
            let tid = tid_base + ti as u16;
            let append_mode = ph.append;
            let in_cs = in_cs.clone();
            let enc_fail = scn.enc_fail.clone();
            let sibling = sibling.clone();
            let full_disk = full_disk.clone();
            let sib_model = sib_model.clone();
            let sib_path = sib_path.clone();
            let old = if handover { previous.clone() } else { None };
            bodies.push(Box::new(move || {
                for r in recs {
                    let id = RecId { tid, n: r.n };
                    let text = frame::encode(id, r.len as usize);
                    let s0 = kernel::stamp();
                    kernel::note("invoke", &format!("{} len={}", id, r.len));
                    {
                        let mut m = model.lock().unwrap();
                        m.inv.insert(id, (s0, None));
                        let mut c = in_cs.lock().unwrap();
                        if *c > 0 {
                            m.switched_inside = true;
                        }
                        *c += 1;
                    }
                    let via_old = old.is_some() && r.n % 2 == 0;
                    if via_old {
                        sink.probe("appends_through_previous_appender", 1);
                    }
                    let target: &FileAppender = if via_old { old.as_ref().unwrap() } else { &appender };
                    let res = target.append(
                        &log::Record::builder()
                            .level(log::Level::Info)
                            .target("sim")
                            .args(format_args!("{}", text))
                            .build(),
                    );
                    let s1 = kernel::stamp();
                    *in_cs.lock().unwrap() -= 1;
                    match res {
                        Ok(()) => {
                            kernel::note("return", &format!("{} ok", id));
                            let mut m = model.lock().unwrap();
                            if enc_fail.contains(&(id.tid, id.n)) {
                                sink.probe("encoder_failure_swallowed", 1);
                            }
                            m.inv.get_mut(&id).unwrap().1 = Some(s1);
                            match fs::read(&path) {
                                Ok(data) => check_file(&sink, &m, &data, Some(id), false, append_mode, json),
                                Err(e) => sink.fail(P, "C04-I1", "unreadable", format!("file unreadable after acknowledged append: {}", e)),
                            }
                        }
                        Err(e) => {
                            kernel::note("return", &format!("{} err", id));
                            if enc_fail.contains(&(id.tid, id.n)) {
                                // injected encoder failure: the record is unacknowledged; everything
                                // acknowledged so far must still be intact
                                let mut m = model.lock().unwrap();
                                m.failed.insert(id);
                                sink.probe("encoder_failures", 1);
                                if let Ok(data) = fs::read(&path) {
                                    check_file(&sink, &m, &data, None, false, append_mode, json);
                                }
                            } else {
                                sink.fail(P, "C04-E0", "append-failed", format!("append of {} failed although nothing was injected: {}", id, e));
                            }
                        }
                    }
                    kernel::point("op.done");
                    if let (true, Some(fd)) = (r.full, full_disk.as_ref()) {
                        // fails in the encoder (records beyond the 1 KiB buffer, or a buffer
                        // filled by earlier failures) or at the flush; never acknowledged
                        let id3 = RecId { tid: tid + 2000, n: r.n };
                        let text3 = frame::encode(id3, r.len as usize);
                        kernel::note("invoke", &format!("{} (appender on a full disk)", id3));
                        let res = fd.append(&log::Record::builder().level(log::Level::Info).target("sim").args(format_args!("{}", text3)).build());
                        kernel::note("return", &format!("{} {}", id3, if res.is_ok() { "ok" } else { "err" }));
                        sink.probe(if res.is_ok() { "full_disk_appends_acknowledged" } else { "full_disk_appends_failed" }, 1);
                        kernel::point("op.done");
                    }
                    if let (true, Some(sib)) = (r.sib, sibling.as_ref()) {
                        let id2 = RecId { tid: tid + 1000, n: r.n };
                        let text2 = frame::encode(id2, (r.len % 700) as usize);
                        let s0 = kernel::stamp();
                        kernel::note("invoke", &format!("{} (second appender)", id2));
                        sib_model.lock().unwrap().inv.insert(id2, (s0, None));
                        let res = sib.append(&log::Record::builder().level(log::Level::Info).target("sim").args(format_args!("{}", text2)).build());
                        let s1 = kernel::stamp();
                        sink.probe("appends_to_second_appender", 1);
                        match res {
                            Ok(()) => {
                                kernel::note("return", &format!("{} ok", id2));
                                let mut m = sib_model.lock().unwrap();
                                m.inv.get_mut(&id2).unwrap().1 = Some(s1);
                                match fs::read(&sib_path) {
                                    Ok(data) => check_file(&sink, &m, &data, Some(id2), false, true, json),
                                    Err(e) => sink.fail(P, "C04-I1", "unreadable", format!("second file unreadable after acknowledged append: {}", e)),
                                }
                            }
                            Err(e) => sink.fail(P, "C04-E0", "append-failed", format!("append of {} to the second appender failed although nothing was injected: {}", id2, e)),
                        }
                        kernel::point("op.done");
                    }
                }
            }));
        }
        if ph.observations > 0 {
            let model = model.clone();
            let sink = sink.clone();
            let path = path.clone();
            let n = ph.observations;
            let append_mode = ph.append;
            bodies.push(Box::new(move || {
                for _ in 0..n {
                    kernel::point("observe");
                    if let Ok(data) = fs::read(&path) {
                        let m = model.lock().unwrap();
                        check_file(&sink, &m, &data, None, false, append_mode, json);
                        sink.probe("independent_observations", 1);
                    }
                }
            }));
        }
        let panics = k.run_phase(bodies, common::WATCHDOG_S);
        for (t, msg) in panics {
            if t == usize::MAX {
                out.harness_error = Some("STALL: a simulated thread did not reach a decision point".into());
                break 'phases;
            }
            sink.fail(P, "C04-E0", "panic", format!("thread panicked: {}", msg));
        }
        if let Some(a) = k.abort_reason() {
            out.harness_error = Some(format!("run aborted: {:?}", a));
            break 'phases;
        }
        // quiescent check, then clean restart
        if let Some(sib) = sibling {
            let m = sib_model.lock().unwrap();
            if let Ok(data) = fs::read(&sib_path) {
                check_file(&sink, &m, &data, None, true, true, json);
                drop(sib);
                if fs::read(&sib_path).map(|d| d != data).unwrap_or(true) {
                    sink.fail(P, "C04-I3", "drop-changed-file", "closing the second appender changed its file".to_string());
                }
            }
        }
        let m = model.lock().unwrap();
        any_switch_inside |= m.switched_inside;
        match fs::read(&path) {
            Ok(data) => {
                check_file(&sink, &m, &data, None, true, ph.append, json);
                previous = None; // the handed-over appender is closed now
                let keep = scn.phases.get(pi + 1).map(|n| n.handover && n.append && ph.append).unwrap_or(false);
                if keep {
                    previous = Some(appender.clone());
                }
                drop(appender);
                // dropping the appender must not change the file
                match fs::read(&path) {
                    Ok(d2) if d2 == data => base = data,
                    Ok(d2) if !m.failed.is_empty() => {
                        // the buffered fragment of a record whose encoder failed may be written out on close
                        check_file(&sink, &m, &d2, None, true, ph.append, json);
                        if !d2.starts_with(&data) {
                            sink.fail(P, "C04-I3", "drop-changed-file", format!("closing the appender rewrote the file ({} -> {} bytes)", data.len(), d2.len()));
                        }
                        base = d2;
                    }
                    Ok(d2) => {
                        sink.fail(P, "C04-I3", "drop-changed-file", format!("closing the appender changed the file ({} -> {} bytes)", data.len(), d2.len()));
                        base = data;
                    }
                    Err(_) => base = data,
                }
            }
            Err(e) => {
                sink.fail(P, "C04-I1", "unreadable", format!("file unreadable at quiescence: {}", e));
                break 'phases;
            }
        }
        if sink.any() {
            break 'phases;
        }
    }
    let (summary, now) = common::end(&k);
    let (v, probes) = sink.take();
    out.violations = v;
    out.probes = probes;
    out.nontrivial = any_switch_inside;
    if any_switch_inside {
        out.probe("switch_inside_append", 1);
    }
    if scn.phases.len() > 1 {
        out.probe("restarts", scn.phases.len() as u64 - 1);
    }
    out.sim_ns = now - common::T0_NS;
    out.summary = summary;
    out
}

pub fn size(s: &Scn) -> usize {
    s.phases.iter().map(|p| 1 + p.threads.iter().map(|t| 1 + t.len()).sum::<usize>()).sum::<usize>()
        + s.pre.as_ref().map(|p| 1 + p.len() / 64).unwrap_or(0)
        + s.phases.iter().flat_map(|p| p.threads.iter().flatten()).map(|r| (r.len as usize) / 256 + r.sib as usize + r.full as usize).sum::<usize>()
}

pub fn shrink(s: &Scn) -> Vec<Scn> {
    let mut out = vec![];
    // drop a phase
    if s.phases.len() > 1 {
        for i in 0..s.phases.len() {
            let mut c = s.clone();
            c.phases.remove(i);
            out.push(c);
        }
    }
    for (pi, p) in s.phases.iter().enumerate() {
        if p.handover {
            let mut c = s.clone();
            c.phases[pi].handover = false;
            out.push(c);
        }
        if p.observations > 0 {
            let mut c = s.clone();
            c.phases[pi].observations = 0;
            out.push(c);
        }
    }
    // drop a thread
    for (pi, p) in s.phases.iter().enumerate() {
        if p.threads.len() > 1 {
            for ti in 0..p.threads.len() {
                let mut c = s.clone();
                c.phases[pi].threads.remove(ti);
                out.push(c);
            }
        }
    }
    // drop a record
    for (pi, p) in s.phases.iter().enumerate() {
        for (ti, t) in p.threads.iter().enumerate() {
            for ri in 0..t.len() {
                let mut c = s.clone();
                c.phases[pi].threads[ti].remove(ri);
                out.push(c);
            }
        }
    }
    for i in 0..s.enc_fail.len() {
        let mut c = s.clone();
        c.enc_fail.remove(i);
        out.push(c);
    }
    for (pi, p) in s.phases.iter().enumerate() {
        for (ti, t) in p.threads.iter().enumerate() {
            for (ri, r) in t.iter().enumerate() {
                if r.sib {
                    let mut c = s.clone();
                    c.phases[pi].threads[ti][ri].sib = false;
                    out.push(c);
                }
                if r.full {
                    let mut c = s.clone();
                    c.phases[pi].threads[ti][ri].full = false;
                    out.push(c);
                }
            }
        }
    }
    // simplify
    if s.pre.as_ref().map(|p| !p.is_empty()).unwrap_or(false) {
        let mut c = s.clone();
        c.pre = Some(vec![]);
        out.push(c);
        let mut c = s.clone();
        c.pre = Some(b"pre".to_vec());
        out.push(c);
    }
    if s.nested_dirs {
        let mut c = s.clone();
        c.nested_dirs = false;
        out.push(c);
    }
    if s.encoder != EncKind::Pattern && s.encoder != EncKind::Json && s.enc_fail.is_empty() {
        let mut c = s.clone();
        c.encoder = EncKind::Pattern;
        out.push(c);
    }
    for (pi, p) in s.phases.iter().enumerate() {
        for (ti, t) in p.threads.iter().enumerate() {
            for (ri, r) in t.iter().enumerate() {
                for cand in [1u32, 8, 1025] {
                    if cand < r.len {
                        let mut c = s.clone();
                        c.phases[pi].threads[ti][ri].len = cand;
                        out.push(c);
                        break;
                    }
                }
            }
        }
    }
    out
}
