//! World W — width / fill / alignment over a faulty writer (C10).
//!
//! The real `PatternEncoder` writes into a harness `encode::Write` that
//! accepts a seeded 1..len bytes per call (possibly stopping inside a
//! multi-byte character), sometimes answers `Interrupted`, and in the
//! hard-error profile fails for good. The message is built from several
//! `Display` pieces, so upstream splits vary too. Output is compared with the
//! character-exact truncate-then-pad specification, recursively through
//! nested groups.

use std::io;

use log4rs::encode::{self, pattern::PatternEncoder, Encode};
use serde::{Deserialize, Serialize};

use super::ExecOpts;
use crate::{kernel, rng::Fnv, rng::Rng, Outcome, Sink, Tier};

#[derive(Clone, Debug, Serialize, Deserialize, PartialEq)]
pub struct Spec {
    pub fill: char,
    pub right: bool,
    pub min: Option<usize>,
    pub max: Option<usize>,
}

#[derive(Clone, Debug, Serialize, Deserialize, PartialEq)]
pub enum Node {
    Lit(String),
    /// formatter: 'm' message, 'l' level, 't' target
    Fmt { kind: char, spec: Option<Spec> },
    Group { inner: Vec<Node>, spec: Option<Spec> },
    /// `{h(..)}`: the inner text with a level-dependent style switched on before
    /// and off after it (two `set_style` calls on the writer, no characters)
    Highlight { inner: Vec<Node> },
}

#[derive(Clone, Debug, Serialize, Deserialize, PartialEq)]
pub struct Scn {
    pub nodes: Vec<Node>,
    pub msg_pieces: Vec<String>,
    pub level: u8,
    pub target: String,
    /// bytes accepted by successive downstream write calls (cyclic; clamped to 1..=len)
    pub accept: Vec<u16>,
    /// downstream call numbers (0-based) that answer ErrorKind::Interrupted
    pub interrupts: Vec<u16>,
    /// downstream call number from which every write fails (hard-error profile)
    pub hard_error_at: Option<u16>,
    /// encodes performed before this one on the same thread (results ignored,
    /// typically against a failing writer): state must not leak from one
    /// record into the next
    #[serde(default)]
    pub prelude: Vec<Scn>,
}

fn render_spec(s: &Option<Spec>) -> String {
    match s {
        None => String::new(),
        Some(s) => {
            let mut o = format!(":{}{}", s.fill, if s.right { '>' } else { '<' });
            if let Some(m) = s.min {
                o.push_str(&m.to_string());
            }
            if let Some(m) = s.max {
                o.push_str(&format!(".{}", m));
            }
            o
        }
    }
}

pub fn render(nodes: &[Node]) -> String {
    let mut o = String::new();
    for n in nodes {
        match n {
            Node::Lit(t) => o.push_str(t),
            Node::Fmt { kind, spec } => o.push_str(&format!("{{{}{}}}", kind, render_spec(spec))),
            Node::Group { inner, spec } => o.push_str(&format!("{{({}){}}}", render(inner), render_spec(spec))),
            Node::Highlight { inner } => o.push_str(&format!("{{h({})}}", render(inner))),
        }
    }
    o
}

/// The specification: first `max` characters, then padded with `fill` on the
/// chosen side up to `min` characters — counted in Unicode scalar values.
pub fn apply(text: &str, spec: &Option<Spec>) -> String {
    match spec {
        None => text.to_string(),
        Some(s) => {
            let cut: String = match s.max {
                Some(m) => text.chars().take(m).collect(),
                None => text.to_string(),
            };
            let n = cut.chars().count();
            let pad = s.min.map(|m| m.saturating_sub(n)).unwrap_or(0);
            let fill: String = std::iter::repeat(s.fill).take(pad).collect();
            if s.right {
                format!("{}{}", fill, cut)
            } else {
                format!("{}{}", cut, fill)
            }
        }
    }
}

pub fn eval(nodes: &[Node], msg: &str, level: &str, target: &str) -> String {
    let mut o = String::new();
    for n in nodes {
        match n {
            Node::Lit(t) => o.push_str(t),
            Node::Fmt { kind, spec } => {
                let t = match kind {
                    'm' => msg,
                    'l' => level,
                    _ => target,
                };
                o.push_str(&apply(t, spec));
            }
            Node::Group { inner, spec } => o.push_str(&apply(&eval(inner, msg, level, target), spec)),
            Node::Highlight { inner } => o.push_str(&eval(inner, msg, level, target)),
        }
    }
    o
}

const FILLS: [char; 13] = [' ', '~', 'é', '界', '😀', '{', '}', '(', ':', '<', '.', '0', '7'];
const ALPHABET: [&str; 12] = ["a", "Z", "é", "ß", "界", "語", "😀", "𝄞", "e\u{301}", "\u{200d}", " ", "-"];

fn gen_text(rng: &mut Rng, max_chars: u64) -> String {
    let n = rng.below(max_chars + 1);
    let mut s = String::new();
    let ascii_only = rng.chance(1, 4);
    for _ in 0..n {
        if ascii_only {
            s.push((b'a' + rng.below(26) as u8) as char);
        } else {
            let c: &&str = rng.pick(&ALPHABET);
            s.push_str(c);
        }
    }
    s
}

fn gen_spec(rng: &mut Rng) -> Option<Spec> {
    if rng.chance(1, 8) {
        return None;
    }
    let (min, max) = match rng.weighted(&[2, 2, 4, 1]) {
        3 => {
            // long padding runs (internal block sizes)
            let m = rng.range(15, 140) as usize;
            (Some(m), if rng.chance(1, 2) { Some(m + rng.below(30) as usize) } else { None })
        }
        0 => (Some(rng.below(14) as usize), None),
        1 => (None, Some(rng.below(14) as usize)),
        _ => {
            let m = rng.below(12) as usize;
            (Some(m), Some(m + rng.below(8) as usize))
        }
    };
    Some(Spec { fill: *rng.pick(&FILLS), right: rng.chance(1, 2), min, max })
}

fn gen_nodes(rng: &mut Rng, depth: u32) -> Vec<Node> {
    let n = rng.range(1, 3);
    let mut v = vec![];
    for _ in 0..n {
        match rng.weighted(&[2, 6, if depth < 3 { 3 } else { 0 }, if depth < 3 { 1 } else { 0 }]) {
            0 => v.push(Node::Lit(rng.pick(&["|", " - ", "é", "::", "x", "界 "]).to_string())),
            1 => v.push(Node::Fmt { kind: *rng.pick(&['m', 'm', 'm', 'l', 't']), spec: gen_spec(rng) }),
            2 => v.push(Node::Group { inner: gen_nodes(rng, depth + 1), spec: gen_spec(rng) }),
            _ => v.push(Node::Highlight { inner: gen_nodes(rng, depth + 1) }),
        }
    }
    v
}

pub fn generate(rng: &mut Rng, _tier: Tier, hard: bool) -> Scn {
    let npieces = rng.range(1, 4);
    let mut msg_pieces: Vec<String> = (0..npieces).map(|_| gen_text(rng, 8)).collect();
    if rng.chance(1, 60) {
        // beyond small cases: one piece of several thousand bytes (a stack trace, a dump)
        let k = rng.below(msg_pieces.len() as u64) as usize;
        let n = *rng.pick(&[2040u64, 2048, 2049, 2080, 4096, 4100, 9000]) + rng.below(3);
        msg_pieces[k] = if rng.chance(2, 3) { (0..n).map(|i| (b'a' + ((i * 7 + 3) % 26) as u8) as char).collect() } else { gen_text(rng, n / 2) };
    }
    let accept = (0..rng.range(1, 6)).map(|_| *rng.pick(&[1u16, 1, 1, 2, 3, 4, 5, 7, 64, 1000])).collect();
    let interrupts = (0..rng.below(4)).map(|_| rng.below(40) as u16).collect();
    Scn {
        nodes: gen_nodes(rng, 0),
        msg_pieces,
        level: rng.range(1, 5) as u8,
        target: gen_text(rng, 6),
        accept,
        interrupts,
        hard_error_at: if hard { Some(rng.below(12) as u16) } else { None },
        prelude: vec![],
    }
}

/// A healthy encode preceded, on the same thread, by 1-2 encodes into a writer that fails for good.
pub fn generate_sequence(rng: &mut Rng, tier: Tier) -> Scn {
    let mut main = generate(rng, tier, false);
    let n = rng.range(1, 2);
    for _ in 0..n {
        let mut p = generate(rng, tier, true);
        if rng.chance(1, 2) {
            // same pattern: per-pattern or per-field state is the interesting case
            p.nodes = main.nodes.clone();
        }
        p.hard_error_at = Some(rng.below(30) as u16);
        main.prelude.push(p);
    }
    main
}

struct FaultyWriter<'a> {
    out: Vec<u8>,
    calls: u16,
    scn: &'a Scn,
    short_writes: u64,
    mid_char_stops: u64,
    interrupted: u64,
    style_changes: u64,
    hash: Fnv,
}

impl<'a> io::Write for FaultyWriter<'a> {
    fn write(&mut self, buf: &[u8]) -> io::Result<usize> {
        let call = self.calls;
        self.calls = self.calls.saturating_add(1);
        if let Some(h) = self.scn.hard_error_at {
            if call >= h {
                return Err(io::Error::new(io::ErrorKind::Other, "injected hard error"));
            }
        }
        if self.scn.interrupts.contains(&call) {
            self.interrupted += 1;
            return Err(io::Error::from(io::ErrorKind::Interrupted));
        }
        if buf.is_empty() {
            return Ok(0);
        }
        let want = self.scn.accept[call as usize % self.scn.accept.len()] as usize;
        let n = want.clamp(1, buf.len());
        if n < buf.len() {
            self.short_writes += 1;
            if (buf[n] as i8) < -0x40 {
                self.mid_char_stops += 1;
            }
        }
        self.out.extend_from_slice(&buf[..n]);
        self.hash.write_u64(n as u64);
        Ok(n)
    }
    fn flush(&mut self) -> io::Result<()> {
        Ok(())
    }
}

impl<'a> encode::Write for FaultyWriter<'a> {
    fn set_style(&mut self, _style: &encode::Style) -> io::Result<()> {
        self.style_changes += 1;
        Ok(())
    }
}

const LEVELS: [&str; 5] = ["ERROR", "WARN", "INFO", "DEBUG", "TRACE"];

struct Pieces<'a>(&'a [String]);
impl<'a> std::fmt::Display for Pieces<'a> {
    fn fmt(&self, f: &mut std::fmt::Formatter<'_>) -> std::fmt::Result {
        for p in self.0 {
            f.write_str(p)?;
        }
        Ok(())
    }
}

pub fn execute(scn: &Scn, opts: &ExecOpts) -> Outcome {
    // a fresh thread per case: thread-local state of the encoder starts clean and the case replays exactly
    let scn2 = scn.clone();
    let opts2 = opts.clone();
    std::thread::spawn(move || {
        kernel::install_panic_hook();
        for p in &scn2.prelude {
            let mut q = p.clone();
            q.prelude.clear();
            let o = execute_one(&q, &opts2);
            if let Some(v) = o.violations.first() {
                // only "no panic" is asserted for the prelude
                let mut out = Outcome::default();
                out.violations.push(v.clone());
                out.summary.events_hash = o.summary.events_hash;
                return out;
            }
        }
        let mut main = scn2.clone();
        main.prelude.clear();
        let mut out = execute_one(&main, &opts2);
        if !scn2.prelude.is_empty() {
            out.probe("encodes_after_a_failed_encode_on_the_same_thread", 1);
        }
        out
    })
    .join()
    .unwrap_or_else(|_| {
        let mut o = Outcome::default();
        o.harness_error = Some("world W thread panicked".into());
        o
    })
}

fn execute_one(scn: &Scn, _opts: &ExecOpts) -> Outcome {
    let mut out = Outcome::default();
    let sink = Sink::default();
    let pattern = render(&scn.nodes);
    let msg: String = scn.msg_pieces.concat();
    let level_txt = LEVELS[(scn.level as usize - 1).min(4)];
    let want = eval(&scn.nodes, &msg, level_txt, &scn.target);
    let mut w = FaultyWriter { out: vec![], calls: 0, scn, short_writes: 0, mid_char_stops: 0, interrupted: 0, style_changes: 0, hash: Fnv::default() };
    let res = std::panic::catch_unwind(std::panic::AssertUnwindSafe(|| {
        let enc = PatternEncoder::new(&pattern);
        let pieces = Pieces(&scn.msg_pieces);
        enc.encode(&mut w, &log::Record::builder().level(super::l::level(scn.level)).target(&scn.target).args(format_args!("{}", pieces)).build())
    }));
    match res {
        Err(_) => {
            let msg = kernel::take_last_panic().unwrap_or_default();
            sink.fail("C10", "C10-I4", "panic", format!("pattern {:?} panicked: {}", pattern, msg));
        }
        Ok(r) => {
            if scn.hard_error_at.is_some() {
                // only "no panic" is asserted; the output must still be a prefix-consistent byte string
                let _ = r;
            } else {
                match r {
                    Err(e) => sink.fail("C10", "C10-E0", "encode-failed", format!("pattern {:?}: encode failed although the writer only short-wrote / was interrupted: {}", pattern, e)),
                    Ok(()) => {
                        if std::str::from_utf8(&w.out).is_err() {
                            sink.fail("C10", "C10-I2", "invalid-utf8", format!("pattern {:?} message {:?}: output is not valid UTF-8: {:?}", pattern, msg, String::from_utf8_lossy(&w.out)));
                        } else if w.out != want.as_bytes() {
                            sink.fail(
                                "C10",
                                "C10-I1",
                                "wrong-output",
                                format!("pattern {:?} message {:?} level {} target {:?}: output {:?}, specification {:?}", pattern, msg, level_txt, scn.target, String::from_utf8_lossy(&w.out), want),
                            );
                        }
                    }
                }
            }
        }
    }
    let (v, _) = sink.take();
    out.violations = v;
    out.probe("short_writes", w.short_writes);
    out.probe("stops_inside_a_character", w.mid_char_stops);
    out.probe("interrupted_calls", w.interrupted);
    out.probe("style_changes_inside_patterns", w.style_changes);
    if scn.hard_error_at.is_some() {
        out.probe("hard_error_runs", 1);
    }
    out.nontrivial = w.short_writes > 0 || w.interrupted > 0;
    let mut h = w.hash;
    h.write(pattern.as_bytes());
    h.write(msg.as_bytes());
    h.write(&w.out);
    out.summary.events_hash = h.0;
    out
}

pub fn size(s: &Scn) -> usize {
    fn n(v: &[Node]) -> usize {
        v.iter()
            .map(|x| match x {
                Node::Group { inner, .. } | Node::Highlight { inner } => 1 + n(inner),
                _ => 1,
            })
            .sum()
    }
    s.prelude.iter().map(size).sum::<usize>() + n(&s.nodes) * 4 + s.msg_pieces.iter().map(|p| 1 + p.chars().count()).sum::<usize>() + s.target.chars().count() + s.accept.len() + s.interrupts.len()
}

pub fn shrink(s: &Scn) -> Vec<Scn> {
    let mut out = vec![];
    for i in 0..s.prelude.len() {
        let mut c = s.clone();
        c.prelude.remove(i);
        out.push(c);
    }
    for (i, p) in s.prelude.iter().enumerate() {
        for q in shrink(p).into_iter().take(12) {
            let mut c = s.clone();
            c.prelude[i] = q;
            out.push(c);
        }
    }
    for i in 0..s.nodes.len() {
        if s.nodes.len() > 1 {
            let mut c = s.clone();
            c.nodes.remove(i);
            out.push(c);
        }
        if let Node::Group { inner, .. } | Node::Highlight { inner } = &s.nodes[i] {
            let mut c = s.clone();
            c.nodes.splice(i..i + 1, inner.clone());
            out.push(c);
        }
        if let Node::Lit(_) = &s.nodes[i] {
        } else {
            let mut c = s.clone();
            match &mut c.nodes[i] {
                Node::Fmt { spec, .. } | Node::Group { spec, .. } => {
                    if spec.is_some() {
                        *spec = None;
                        out.push(c);
                    }
                }
                _ => {}
            }
        }
    }
    for i in 0..s.msg_pieces.len() {
        if s.msg_pieces.len() > 1 {
            let mut c = s.clone();
            c.msg_pieces.remove(i);
            out.push(c);
        }
        let chars: Vec<char> = s.msg_pieces[i].chars().collect();
        if chars.len() > 1 {
            let mut c = s.clone();
            c.msg_pieces[i] = chars[..chars.len() / 2].iter().collect();
            out.push(c);
            let mut c = s.clone();
            c.msg_pieces[i] = chars[chars.len() / 2..].iter().collect();
            out.push(c);
        }
    }
    if !s.interrupts.is_empty() {
        let mut c = s.clone();
        c.interrupts.clear();
        out.push(c);
    }
    if s.accept.len() > 1 {
        let mut c = s.clone();
        c.accept.truncate(1);
        out.push(c);
    }
    if !s.target.is_empty() {
        let mut c = s.clone();
        c.target = String::new();
        out.push(c);
    }
    out
}
