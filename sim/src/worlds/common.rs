//! Pieces shared by several worlds: harness encoders, schedule generation,
//! the run wrapper.

use std::sync::Arc;

use log4rs::encode::{self, Encode};
use serde::{Deserialize, Serialize};

use crate::{
    clock,
    kernel::{self, Kernel, KernelConfig, Policy, Source},
    rng::Rng,
    Sched,
};

#[derive(Clone, Debug, Serialize, Deserialize, PartialEq)]
pub enum EncKind {
    /// harness encoder: 1..=6 write calls per record with a decision point between them
    Chunk { seed: u64 },
    /// the real `PatternEncoder("{m}")`
    Pattern,
    /// the real `JsonEncoder` (one JSON object per line; the frame is its `message`)
    Json,
}

#[derive(Debug)]
pub struct ChunkEncoder {
    pub seed: u64,
    /// records (tid, n) whose encoding fails part-way (fault at the Encode seam)
    pub fail: Vec<(u16, u16)>,
    /// no decision points and no notes (the instance drives a reference model)
    pub quiet: bool,
}

fn header_id(b: &[u8]) -> Option<(u16, u16)> {
    if b.first() != Some(&2) {
        return None;
    }
    let end = b.iter().position(|x| *x == 3)?;
    let h = std::str::from_utf8(&b[1..end]).ok()?;
    let mut it = h.split(',');
    Some((it.next()?.parse().ok()?, it.next()?.parse().ok()?))
}

impl Encode for ChunkEncoder {
    fn encode(&self, w: &mut dyn encode::Write, record: &log::Record) -> anyhow::Result<()> {
        let s = record.args().to_string();
        let b = s.as_bytes();
        let mut rng = Rng::new(self.seed ^ (b.len() as u64).wrapping_mul(0x9E37) ^ fold(b));
        let pieces = 1 + rng.below(6) as usize;
        let mut cuts: Vec<usize> = (0..pieces - 1).map(|_| rng.below(b.len() as u64 + 1) as usize).collect();
        cuts.sort();
        cuts.push(b.len());
        let failing = !self.fail.is_empty() && header_id(b).map(|id| self.fail.contains(&id)).unwrap_or(false);
        let fail_at = if failing { rng.below(cuts.len() as u64) as usize } else { usize::MAX };
        let mut p = 0;
        for (i, c) in cuts.iter().enumerate() {
            if i == fail_at {
                if !self.quiet {
                    kernel::note("encode.fail", "");
                }
                anyhow::bail!("injected encoder failure");
            }
            if i % 3 == 2 {
                // exercise `write` with manual continuation too
                let mut q = p;
                while q < *c {
                    q += w.write(&b[q..*c])?;
                }
            } else {
                w.write_all(&b[p..*c])?;
            }
            p = *c;
            if i + 1 < cuts.len() && !self.quiet {
                kernel::point("enc.chunk");
            }
        }
        Ok(())
    }
}

fn fold(b: &[u8]) -> u64 {
    let mut h = crate::rng::Fnv::default();
    h.write(&b[..b.len().min(24)]);
    h.0
}

pub fn make_encoder(k: &EncKind) -> Box<dyn Encode> {
    match k {
        EncKind::Chunk { seed } => Box::new(ChunkEncoder { seed: *seed, fail: vec![], quiet: false }),
        EncKind::Pattern => Box::new(log4rs::encode::pattern::PatternEncoder::new("{m}")),
        EncKind::Json => Box::new(log4rs::encode::json::JsonEncoder::new()),
    }
}

pub fn gen_policy(rng: &mut Rng) -> Policy {
    match rng.weighted(&[5, 3, 1, 1]) {
        0 => Policy::Walk { stay: *rng.pick(&[30u8, 50, 70, 85, 95]) },
        1 => Policy::Pct { changes: rng.range(1, 3) as u8, horizon: *rng.pick(&[20u32, 60, 150]) },
        2 => Policy::RoundRobin,
        _ => Policy::Starve { victim: rng.below(4) as u8 },
    }
}

pub struct RunCfg {
    pub sched: Sched,
    pub trace: bool,
    pub start_ns: i64,
    pub tz: Option<String>,
    pub faults: Vec<kernel::FaultSpec>,
    pub crash: Option<kernel::CrashSpec>,
    pub rand_script: Vec<u64>,
    pub step_cap: u64,
}

/// Starts the simulated clock, sets TZ and creates the kernel.
pub fn begin(cfg: RunCfg) -> Arc<Kernel> {
    match &cfg.tz {
        Some(tz) => std::env::set_var("TZ", tz),
        None => std::env::set_var("TZ", "UTC0"),
    }
    clock::activate(cfg.start_ns);
    let source = match cfg.sched {
        Sched::Prng { seed, policy } => Source::prng(seed, policy),
        Sched::List(l) => Source::list(l),
    };
    Kernel::start(KernelConfig {
        source,
        step_cap: cfg.step_cap,
        trace: cfg.trace,
        faults: cfg.faults,
        crash: cfg.crash,
        rand_script: cfg.rand_script,
    })
}

pub fn end(k: &Arc<Kernel>) -> (kernel::RunSummary, i64) {
    k.shutdown();
    let s = k.finish();
    let now = clock::now_ns();
    clock::deactivate();
    (s, now)
}

pub const WATCHDOG_S: f64 = 20.0;

/// 2024-03-01T12:00:00Z — default start instant of runs that do not care about time.
pub const T0_NS: i64 = 1_709_294_400_000_000_000;

/// Maps a file written through the JSON encoder back to the stream of
/// messages it carries. Every line must be one JSON object as the encoder
/// writes it; if `fragments` is set, strict prefixes of such objects (what a
/// failed encode leaves in the appender's own buffer) may precede an object
/// on its line and contribute the part of the message they hold.
pub fn decode_json(data: &[u8], fragments: bool, open_tail: bool) -> Result<Vec<u8>, (usize, String)> {
    if !open_tail && !data.is_empty() && data.last() != Some(&b'\n') {
        let at = data.iter().rposition(|b| *b == b'\n').map(|i| i + 1).unwrap_or(0);
        return Err((at, "the last line is not terminated although no record is being written".into()));
    }
    const START: &[u8] = b"{\"time\":";
    const MSG: &[u8] = b"\"message\":\"";
    fn find(h: &[u8], n: &[u8], from: usize) -> Option<usize> {
        if h.len() < n.len() {
            return None;
        }
        (from..=h.len() - n.len()).find(|i| &h[*i..*i + n.len()] == n)
    }
    fn fragment(seg: &[u8], out: &mut Vec<u8>) -> Result<(), String> {
        // a strict prefix of an object: up to and into the message value
        if !(seg.starts_with(START) || START.starts_with(seg)) {
            return Err("bytes that are not the beginning of a record".into());
        }
        if let Some(m) = find(seg, MSG, 0) {
            let raw = &seg[m + MSG.len()..];
            let s = match std::str::from_utf8(raw) {
                Ok(s) => s,
                Err(e) => std::str::from_utf8(&raw[..e.valid_up_to()]).unwrap(),
            };
            // the string value up to its closing quote, or as much of it as is there
            let b = s.as_bytes();
            let mut i = 0;
            let mut end = b.len();
            while i < b.len() {
                match b[i] {
                    b'"' => {
                        end = i;
                        break;
                    }
                    b'\\' => {
                        let need = if b.get(i + 1) == Some(&b'u') { 6 } else { 2 };
                        if i + need > b.len() {
                            end = i; // escape cut short
                            break;
                        }
                        i += need;
                    }
                    _ => i += 1,
                }
            }
            if let Ok(v) = serde_json::from_str::<String>(&format!("\"{}\"", &s[..end])) {
                out.extend_from_slice(v.as_bytes());
                return Ok(());
            }
            return Err("fragment whose message part cannot be read".into());
        }
        Ok(())
    }
    let mut out = vec![];
    let mut p = 0;
    while p < data.len() {
        let nl = data[p..].iter().position(|b| *b == b'\n').map(|i| p + i);
        let end = nl.unwrap_or(data.len());
        let line = &data[p..end];
        // fragments in front of the object, each beginning like a record
        let mut q = 0;
        let mut starts = vec![];
        while let Some(i) = find(line, START, q) {
            starts.push(i);
            q = i + 1;
        }
        let obj_at = if nl.is_some() { starts.last().copied() } else { None };
        let lead_end = obj_at.unwrap_or(line.len());
        if lead_end > 0 || obj_at.is_none() {
            if !line.is_empty() && !fragments && nl.is_some() {
                return Err((p, format!("line is not one JSON object: {:?}", String::from_utf8_lossy(&line[..line.len().min(80)]))));
            }
            // split the lead into fragments at the record beginnings
            let mut cuts: Vec<usize> = starts.iter().copied().filter(|i| *i < lead_end).collect();
            if cuts.first() != Some(&0) && lead_end > 0 {
                cuts.insert(0, 0);
            }
            cuts.push(lead_end);
            for w in cuts.windows(2) {
                if let Err(why) = fragment(&line[w[0]..w[1]], &mut out) {
                    return Err((p + w[0], why));
                }
            }
        }
        if let Some(at) = obj_at {
            let v: serde_json::Value = match serde_json::from_slice(&line[at..]) {
                Ok(v) => v,
                Err(e) => return Err((p + at, format!("not a JSON object: {}", e))),
            };
            let ok = v.get("level").and_then(|x| x.as_str()) == Some("INFO") && v.get("target").and_then(|x| x.as_str()) == Some("sim") && v.get("time").is_some() && v.get("thread_id").is_some();
            match v.get("message").and_then(|x| x.as_str()) {
                Some(m) if ok => out.extend_from_slice(m.as_bytes()),
                _ => return Err((p + at, "JSON object without the fields the encoder writes".into())),
            }
        }
        p = end + 1;
    }
    Ok(out)
}

/// Reference model of `BufWriter<File>` (capacity 1 KiB, as the file appender
/// builds it) over a file with an optional size limit (RLIMIT_FSIZE: a write
/// that crosses the limit is cut short, one that starts at it fails).
#[derive(Debug, Default)]
pub struct BufFileModel {
    pub buf: Vec<u8>,
    pub file: Vec<u8>,
    pub limit: Option<usize>,
}

const CAP: usize = 1024;

impl BufFileModel {
    fn file_write(&mut self, data: &[u8]) -> std::io::Result<usize> {
        let n = match self.limit {
            Some(l) if self.file.len() >= l => return Err(std::io::Error::from_raw_os_error(libc::EFBIG)),
            Some(l) => data.len().min(l - self.file.len()),
            None => data.len(),
        };
        self.file.extend_from_slice(&data[..n]);
        Ok(n)
    }
    pub fn flush_buf(&mut self) -> std::io::Result<()> {
        while !self.buf.is_empty() {
            let b = std::mem::take(&mut self.buf);
            match self.file_write(&b) {
                Ok(n) => self.buf = b[n..].to_vec(),
                Err(e) => {
                    self.buf = b;
                    return Err(e);
                }
            }
        }
        Ok(())
    }
}

impl std::io::Write for BufFileModel {
    fn write(&mut self, b: &[u8]) -> std::io::Result<usize> {
        if b.len() > CAP - self.buf.len() {
            self.flush_buf()?;
        }
        if b.len() >= CAP {
            self.file_write(b)
        } else {
            self.buf.extend_from_slice(b);
            Ok(b.len())
        }
    }
    fn write_all(&mut self, b: &[u8]) -> std::io::Result<()> {
        if b.len() > CAP - self.buf.len() {
            self.flush_buf()?;
        }
        if b.len() >= CAP {
            let mut p = 0;
            while p < b.len() {
                p += self.file_write(&b[p..])?;
            }
            Ok(())
        } else {
            self.buf.extend_from_slice(b);
            Ok(())
        }
    }
    fn flush(&mut self) -> std::io::Result<()> {
        self.flush_buf()
    }
}

impl encode::Write for BufFileModel {}
