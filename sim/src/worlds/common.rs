//! Pieces shared by several worlds: harness encoders, schedule generation,
//! the run wrapper.

use std::sync::Arc;

use log4rs::encode::{self, Encode};
use serde::{Deserialize, Serialize};

use crate::{
    clock,
    kernel::{self, Kernel, KernelConfig, Policy, Source},
    rng::Rng,
    Sched,
};

#[derive(Clone, Debug, Serialize, Deserialize, PartialEq)]
pub enum EncKind {
    /// harness encoder: 1..=6 write calls per record with a decision point between them
    Chunk { seed: u64 },
    /// the real `PatternEncoder("{m}")`
    Pattern,
}

#[derive(Debug)]
pub struct ChunkEncoder {
    pub seed: u64,
    /// records (tid, n) whose encoding fails part-way (fault at the Encode seam)
    pub fail: Vec<(u16, u16)>,
}

fn header_id(b: &[u8]) -> Option<(u16, u16)> {
    if b.first() != Some(&2) {
        return None;
    }
    let end = b.iter().position(|x| *x == 3)?;
    let h = std::str::from_utf8(&b[1..end]).ok()?;
    let mut it = h.split(',');
    Some((it.next()?.parse().ok()?, it.next()?.parse().ok()?))
}

impl Encode for ChunkEncoder {
    fn encode(&self, w: &mut dyn encode::Write, record: &log::Record) -> anyhow::Result<()> {
        use std::io::Write;
        let s = record.args().to_string();
        let b = s.as_bytes();
        let mut rng = Rng::new(self.seed ^ (b.len() as u64).wrapping_mul(0x9E37) ^ fold(b));
        let pieces = 1 + rng.below(6) as usize;
        let mut cuts: Vec<usize> = (0..pieces - 1).map(|_| rng.below(b.len() as u64 + 1) as usize).collect();
        cuts.sort();
        cuts.push(b.len());
        let failing = !self.fail.is_empty() && header_id(b).map(|id| self.fail.contains(&id)).unwrap_or(false);
        let fail_at = if failing { rng.below(cuts.len() as u64) as usize } else { usize::MAX };
        let mut p = 0;
        for (i, c) in cuts.iter().enumerate() {
            if i == fail_at {
                kernel::note("encode.fail", "");
                anyhow::bail!("injected encoder failure");
            }
            if i % 3 == 2 {
                // exercise `write` with manual continuation too
                let mut q = p;
                while q < *c {
                    q += w.write(&b[q..*c])?;
                }
            } else {
                w.write_all(&b[p..*c])?;
            }
            p = *c;
            if i + 1 < cuts.len() {
                kernel::point("enc.chunk");
            }
        }
        Ok(())
    }
}

fn fold(b: &[u8]) -> u64 {
    let mut h = crate::rng::Fnv::default();
    h.write(&b[..b.len().min(24)]);
    h.0
}

pub fn make_encoder(k: &EncKind) -> Box<dyn Encode> {
    match k {
        EncKind::Chunk { seed } => Box::new(ChunkEncoder { seed: *seed, fail: vec![] }),
        EncKind::Pattern => Box::new(log4rs::encode::pattern::PatternEncoder::new("{m}")),
    }
}

pub fn gen_policy(rng: &mut Rng) -> Policy {
    match rng.weighted(&[5, 3, 1, 1]) {
        0 => Policy::Walk { stay: *rng.pick(&[30u8, 50, 70, 85, 95]) },
        1 => Policy::Pct { changes: rng.range(1, 3) as u8, horizon: *rng.pick(&[20u32, 60, 150]) },
        2 => Policy::RoundRobin,
        _ => Policy::Starve { victim: rng.below(4) as u8 },
    }
}

pub struct RunCfg {
    pub sched: Sched,
    pub trace: bool,
    pub start_ns: i64,
    pub tz: Option<String>,
    pub faults: Vec<kernel::FaultSpec>,
    pub crash: Option<kernel::CrashSpec>,
    pub rand_script: Vec<u64>,
    pub step_cap: u64,
}

/// Starts the simulated clock, sets TZ and creates the kernel.
pub fn begin(cfg: RunCfg) -> Arc<Kernel> {
    match &cfg.tz {
        Some(tz) => std::env::set_var("TZ", tz),
        None => std::env::set_var("TZ", "UTC0"),
    }
    clock::activate(cfg.start_ns);
    let source = match cfg.sched {
        Sched::Prng { seed, policy } => Source::prng(seed, policy),
        Sched::List(l) => Source::list(l),
    };
    Kernel::start(KernelConfig {
        source,
        step_cap: cfg.step_cap,
        trace: cfg.trace,
        faults: cfg.faults,
        crash: cfg.crash,
        rand_script: cfg.rand_script,
    })
}

pub fn end(k: &Arc<Kernel>) -> (kernel::RunSummary, i64) {
    k.shutdown();
    let s = k.finish();
    let now = clock::now_ns();
    clock::deactivate();
    (s, now)
}

pub const WATCHDOG_S: f64 = 20.0;

/// 2024-03-01T12:00:00Z — default start instant of runs that do not care about time.
pub const T0_NS: i64 = 1_709_294_400_000_000_000;
