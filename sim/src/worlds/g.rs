//! World G — the process-global logger (C02): one initialisation per
//! process (init_config / init_config_with_err_handler / init_raw_config /
//! init_file, drawn from the seed), then histories of reconfigurations and
//! macro-logged records under the simulated scheduler.

use std::{
    fs,
    sync::{atomic::{AtomicBool, Ordering}, Arc, Mutex, OnceLock},
};

use log4rs::config::{Deserializers, RawConfig};
use serde::{Deserialize, Serialize};

use super::{
    common::{self, RunCfg},
    l::{self, CfgSpec, LOp, LShared},
    ExecOpts,
};
use crate::{frame::RecId, fsutil::Scratch, kernel, lin, rng::Rng, Outcome, Sched, Sink, Tier};

#[derive(Clone, Debug, Serialize, Deserialize, PartialEq)]
pub struct History {
    /// thread 0 may reconfigure; the others only log
    pub threads: Vec<Vec<LOp>>,
}

#[derive(Clone, Debug, Serialize, Deserialize, PartialEq)]
pub struct Scn {
    /// 0 init_config, 1 init_config_with_err_handler, 2 init_raw_config, 3 init_file
    pub init_path: u8,
    pub configs: Vec<CfgSpec>,
    pub histories: Vec<History>,
    pub sched_seed: u64,
    pub policy: kernel::Policy,
}

static INITIALISED: AtomicBool = AtomicBool::new(false);

pub fn generate(rng: &mut Rng, tier: Tier) -> Scn {
    let init_path = rng.weighted(&[4, 2, 1, 1]) as u8;
    let nconf = rng.range(2, 5) as u32;
    let scale = rng.chance(1, 20);
    let mut configs: Vec<CfgSpec> = (0..nconf).map(|v| if scale { l::gen_cfg_scale(rng, "C02") } else { l::gen_cfg(rng, nconf, "C02", v) }).collect();
    if init_path >= 2 {
        // file formats carry no scripted filters
        for a in &mut configs[0].appenders {
            a.filters.retain(|f| matches!(f, l::FilterSpec::Threshold { .. }));
            if init_path == 2 {
                // real file appenders do not fail on demand
                a.fail_num = 0;
            }
        }
    }
    let pool = l::target_pool(&configs);
    let nh = if tier == Tier::Thorough { rng.range(2, 12) } else { rng.range(1, 6) } as usize;
    let mut histories = vec![];
    for _ in 0..nh {
        let nlog = rng.range(0, 2) as usize;
        let mut threads = vec![];
        // thread 0: reconfigurations interleaved with its own logging
        let mut t0 = vec![];
        let k = rng.range(1, 5);
        for i in 0..k {
            if init_path < 2 && rng.chance(1, 2) {
                t0.push(LOp::SetConfig { v: rng.below(nconf as u64) as u32 });
            }
            t0.push(LOp::Log { n: i as u16, target: rng.pick(&pool).to_string(), level: rng.range(1, 5) as u8 });
        }
        if nlog == 0 && rng.chance(1, 4) {
            // single-threaded history: steps whose effect on the facade is judged right away
            let at = rng.below(t0.len() as u64 + 1) as usize;
            if init_path < 2 && rng.chance(1, 2) {
                t0.insert(at, LOp::SetConfig { v: rng.below(nconf as u64) as u32 });
                t0.insert(at, LOp::Perturb { level: rng.range(0, 5) as u8 });
            } else {
                t0.insert(at, LOp::SecondInit { v: rng.below(nconf as u64) as u32, bomb: rng.chance(1, 3) });
            }
        }
        threads.push(t0);
        for _ in 0..nlog {
            let k = rng.range(1, 4);
            threads.push((0..k).map(|i| LOp::Log { n: i as u16, target: rng.pick(&pool).to_string(), level: rng.range(1, 5) as u8 }).collect());
        }
        histories.push(History { threads });
    }
    Scn { init_path, configs, histories, sched_seed: rng.next_u64(), policy: common::gen_policy(rng) }
}

const LEVELS: [&str; 6] = ["off", "error", "warn", "info", "debug", "trace"];

fn render_v0(cfg: &CfgSpec, file_dir: Option<&std::path::Path>) -> String {
    let mut s = String::from("appenders:\n");
    for (i, a) in cfg.appenders.iter().enumerate() {
        s.push_str(&format!("  a{}:\n", i));
        match file_dir {
            Some(d) => s.push_str(&format!("    kind: file\n    path: \"{}/v0a{}.log\"\n    encoder:\n      pattern: \"{{m}}{{n}}\"\n", d.display(), i)),
            None => s.push_str(&format!("    kind: cap0\n    idx: {}\n", i)),
        }
        let th: Vec<u8> = a.filters.iter().filter_map(|f| if let l::FilterSpec::Threshold { level } = f { Some(*level) } else { None }).collect();
        if !th.is_empty() {
            s.push_str("    filters:\n");
            for t in th {
                s.push_str(&format!("      - kind: threshold\n        level: {}\n", LEVELS[t as usize]));
            }
        }
    }
    s.push_str(&format!("root:\n  level: {}\n  appenders: [{}]\n", LEVELS[cfg.root_level as usize], cfg.root_appenders.iter().map(|i| format!("a{}", i)).collect::<Vec<_>>().join(", ")));
    if !cfg.loggers.is_empty() {
        s.push_str("loggers:\n");
        for l in &cfg.loggers {
            s.push_str(&format!("  \"{}\":\n    level: {}\n    additive: {}\n    appenders: [{}]\n", l.name, LEVELS[l.level as usize], l.additive, l.appenders.iter().map(|i| format!("a{}", i)).collect::<Vec<_>>().join(", ")));
        }
    }
    s
}

#[derive(serde::Deserialize)]
#[serde(deny_unknown_fields)]
struct Cap0Config {
    idx: usize,
}

struct Cap0Deserializer {
    sh: Arc<OnceLock<Arc<LShared>>>,
    spec: CfgSpec,
}

impl log4rs::config::Deserialize for Cap0Deserializer {
    type Trait = dyn log4rs::append::Append;
    type Config = Cap0Config;
    fn deserialize(&self, config: Cap0Config, _: &Deserializers) -> anyhow::Result<Box<dyn log4rs::append::Append>> {
        let sh = self.sh.get().expect("shared state").clone();
        Ok(l::make_cap(0, config.idx, self.spec.appenders[config.idx].clone(), sh))
    }
}

fn check_levels(sh: &Arc<LShared>, cfg: &CfgSpec, v: u32, when: &str) {
    // C02-I1
    let want = l::level_filter(l::max_level(cfg));
    let got = log::max_level();
    if got != want {
        sh.sink.fail("C02", "C02-I1", "max-level", format!("{}: the facade's global max level is {:?}, configuration v{} needs {:?}", when, got, v, want));
        return;
    }
    // C02-I2
    for t in l::target_pool(&sh.scn.configs).iter() {
        for lvl in 1..=5u8 {
            let en = log::logger().enabled(&log::Metadata::builder().level(l::level(lvl)).target(t).build());
            let model = lvl <= l::threshold(cfg, t);
            if en != model {
                sh.sink.fail("C02", "C02-I2", "enabled", format!("{}: enabled({:?}, level {}) = {}, the effective logger's threshold under v{} says {}", when, t, lvl, en, v, model));
                return;
            }
        }
    }
}

pub fn execute(scn: &Scn, opts: &ExecOpts) -> Outcome {
    let mut out = Outcome::default();
    if INITIALISED.swap(true, Ordering::SeqCst) {
        out.harness_error = Some("C02 scenarios need a fresh process (the global logger can be set once)".into());
        return out;
    }
    let scratch = Scratch::new("g");
    let sink = Arc::new(Sink::default());
    let lscn = l::Scn { configs: scn.configs.clone(), threads: vec![], prop: "C02".into(), file_v0: false, broken: vec![], handler_logs: None, sched_seed: 0, policy: scn.policy.clone() };
    let file_dir = if scn.init_path == 2 { Some(scratch.root.clone()) } else { None };
    let sh = l::new_shared(lscn, sink.clone(), true, file_dir.clone());
    let sched = opts.sched.clone().unwrap_or(Sched::Prng { seed: scn.sched_seed, policy: scn.policy.clone() });
    let k = common::begin(RunCfg { sched, trace: opts.trace, start_ns: common::T0_NS, tz: None, faults: vec![], crash: None, rand_script: vec![], step_cap: 200_000 });
    // ---- initialisation (on the coordinating thread: nothing else runs yet)
    let init_res: Result<(), String> = match scn.init_path {
        0 => log4rs::init_config(l::build_config(&scn.configs[0], 0, &sh)).map(|h| { let _ = sh.handle.set(h); }).map_err(|e| e.to_string()),
        1 => {
            let she = sh.clone();
            log4rs::config::init_config_with_err_handler(l::build_config(&scn.configs[0], 0, &sh), Box::new(move |e| she.errors.lock().unwrap().push(e.to_string()))).map(|h| { let _ = sh.handle.set(h); }).map_err(|e| e.to_string())
        }
        2 => match serde_yaml::from_str::<RawConfig>(&render_v0(&scn.configs[0], file_dir.as_deref())) {
            Ok(raw) => log4rs::init_raw_config(raw).map_err(|e| e.to_string()),
            Err(e) => Err(format!("harness: generated YAML does not parse: {}", e)),
        },
        _ => {
            let p = scratch.path("log4rs.yaml");
            fs::write(&p, render_v0(&scn.configs[0], None)).unwrap();
            let cell = Arc::new(OnceLock::new());
            let _ = cell.set(sh.clone());
            let mut d = Deserializers::default();
            d.insert("cap0", Cap0Deserializer { sh: cell, spec: scn.configs[0].clone() });
            log4rs::init_file(&p, d).map_err(|e| format!("{:#}", e))
        }
    };
    if let Err(e) = init_res {
        sink.fail("C02", "C02-E0", "init-failed", format!("initialisation through path {} failed: {}", scn.init_path, e));
    } else {
        check_levels(&sh, &scn.configs[0], 0, "after initialisation");
    }
    let current = Arc::new(Mutex::new(0u32));
    let mut tid_base = 0u16;
    for (hi, h) in scn.histories.iter().enumerate() {
        if sink.any() || out.harness_error.is_some() {
            break;
        }
        sh.ops.lock().unwrap().clear();
        let initial = *current.lock().unwrap();
        let mut bodies: Vec<Box<dyn FnOnce() + Send>> = vec![];
        for (ti, ops) in h.threads.iter().enumerate() {
            let ops = ops.clone();
            let sh = sh.clone();
            let current = current.clone();
            let tid = tid_base + ti as u16;
            let configs = scn.configs.clone();
            bodies.push(Box::new(move || {
                for op in ops {
                    if sh.sink.any() {
                        break;
                    }
                    match op {
                        LOp::Log { n, target, level } => l::do_log(&sh, RecId { tid, n }, &target, level),
                        LOp::SecondInit { v, bomb } => {
                            // fresh stubs (tag 9000+v) that must never see a record
                            let extra: Option<Box<dyn log4rs::append::Append>> = if bomb { Some(Box::new(l::Bomb)) } else { None };
                            let cfg = l::build_config_with(&configs[v as usize], 9000 + v, &sh, extra);
                            // the caller survives a panicking destructor of a component it handed over
                            let rejected = std::panic::catch_unwind(std::panic::AssertUnwindSafe(|| log4rs::init_config(cfg)));
                            match rejected {
                                Ok(Ok(_)) => sh.sink.fail("C02", "C02-E0", "second-init-accepted", "a second initialisation attempt was accepted".into()),
                                Ok(Err(_)) => {}
                                Err(_) => {
                                    let _ = kernel::take_last_panic();
                                    sh.sink.probe("rejected_initialisations_with_panicking_destructor", 1);
                                }
                            }
                            sh.sink.probe("rejected_second_initialisations", 1);
                            let cur = *current.lock().unwrap();
                            check_levels(&sh, &configs[cur as usize], cur, &format!("after a rejected second initialisation attempt (with v{})", v));
                        }
                        LOp::Perturb { level } => {
                            log::set_max_level(l::level_filter(level));
                            sh.sink.probe("facade_level_perturbed_before_reconfiguration", 1);
                        }
                        LOp::SetConfig { v } => {
                            if sh.handle.get().is_some() {
                                l::do_set_config(&sh, v, false);
                                *current.lock().unwrap() = v;
                                check_levels(&sh, &configs[v as usize], v, &format!("after set_config(v{}) returned", v));
                            }
                        }
                    }
                    kernel::point("op.done");
                }
            }));
        }
        tid_base += h.threads.len() as u16;
        let panics = k.run_phase(bodies, common::WATCHDOG_S);
        for (t, msg) in panics {
            if t == usize::MAX {
                out.harness_error = Some("STALL".into());
            } else {
                sink.fail("C02", "C02-E0", "panic", format!("thread panicked in history {}: {}", hi, msg));
            }
        }
        if let Some(a) = k.abort_reason() {
            out.harness_error = Some(format!("run aborted: {:?}", a));
        }
        if !sink.any() && out.harness_error.is_none() {
            let ops = sh.ops.lock().unwrap().clone();
            if let Some(hst) = lin::check_regular(&ops, initial) {
                sink.fail("C02", "C02-I3", "stale-or-foreign-config", format!("history {}: a macro-logged record is not consistent with the configuration before or after the reconfiguration in flight: {}", hi, hst));
            } else if lin::check(&ops, initial).is_some() {
                // observation only: the facade's max level and the logger tree are swapped in two steps
                sink.probe("histories_regular_but_not_linearizable", 1);
            }
        }
    }
    let overlaps = *sh.overlaps.lock().unwrap();
    let (summary, _) = common::end(&k);
    let (v, probes) = sink.take();
    out.violations = v;
    out.probes = probes;
    out.probe("swap_overlapping_log", overlaps);
    out.probe(&format!("init_path_{}", scn.init_path), 1);
    out.probe("histories", scn.histories.len() as u64);
    out.nontrivial = scn.histories.iter().any(|h| h.threads[0].iter().any(|o| matches!(o, LOp::SetConfig { .. }))) || scn.init_path >= 2;
    out.summary = summary;
    out
}

pub fn size(s: &Scn) -> usize {
    s.histories.iter().map(|h| 1 + h.threads.iter().map(|t| 1 + t.len()).sum::<usize>()).sum::<usize>() + s.configs.iter().map(|c| 1 + c.loggers.len() + c.appenders.len()).sum::<usize>()
}

pub fn shrink(s: &Scn) -> Vec<Scn> {
    let mut out = vec![];
    for i in 0..s.histories.len() {
        let mut c = s.clone();
        c.histories.remove(i);
        out.push(c);
    }
    for (hi, h) in s.histories.iter().enumerate() {
        for ti in 1..h.threads.len() {
            let mut c = s.clone();
            c.histories[hi].threads.remove(ti);
            out.push(c);
        }
        for (ti, t) in h.threads.iter().enumerate() {
            for oi in 0..t.len() {
                let mut c = s.clone();
                c.histories[hi].threads[ti].remove(oi);
                out.push(c);
            }
        }
    }
    for (ci, cfg) in s.configs.iter().enumerate() {
        for li in 0..cfg.loggers.len() {
            let mut c = s.clone();
            c.configs[ci].loggers.remove(li);
            out.push(c);
        }
    }
    out
}
