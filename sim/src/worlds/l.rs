//! World L — the logger core (C03, C15; the routing model here is also the
//! oracle of C02).
//!
//! The real `log4rs::Logger` (ArcSwap snapshot, routing tree, filter loop,
//! error hand-off) with capturing stub appenders / filters / error handler.
//! Every configuration version owns fresh stub instances tagged with the
//! version, so every delivery names the version that routed it.

use std::{
    collections::{BTreeMap, HashMap},
    sync::{Arc, Mutex, OnceLock},
};

use log::{Level, LevelFilter};
use log4rs::{
    append::Append,
    config::{Appender, Config, Logger as CfgLogger, Root},
    filter::{threshold::ThresholdFilter, Filter, Response},
    Handle,
};
use serde::{Deserialize, Serialize};

use super::{
    common::{self, RunCfg},
    ExecOpts,
};
use crate::{
    frame::RecId,
    kernel, lin,
    rng::{Fnv, Rng},
    Outcome, Sched, Sink, Tier,
};

#[derive(Clone, Debug, Serialize, Deserialize, PartialEq)]
pub enum FilterSpec {
    /// harness filter: response is a pure function of (seed, record id)
    Script { seed: u64 },
    /// the real ThresholdFilter
    Threshold { level: u8 },
}

#[derive(Clone, Debug, Serialize, Deserialize, PartialEq)]
pub enum Reenter {
    /// while appending a selected record, swap in configuration `v`
    SetConfig { v: u32, sel: u64 },
    /// while appending a selected record, log another record
    Log { target: String, level: u8, sel: u64 },
}

#[derive(Clone, Debug, Serialize, Deserialize, PartialEq)]
pub struct AppSpec {
    pub filters: Vec<FilterSpec>,
    /// the appender returns Err for records with hash % 4 < fail_num
    pub fail_num: u8,
    pub fail_seed: u64,
    pub reenter: Option<Reenter>,
    /// render every delivered record with the real pattern encoder (pattern
    /// number `render` of `PATTERNS`) into the appender's own writer; a failing
    /// delivery fails in that writer, part-way through the record
    #[serde(default)]
    pub render: Option<u8>,
}

#[derive(Clone, Debug, Serialize, Deserialize, PartialEq)]
pub struct LoggerSpec {
    pub name: String,
    pub level: u8,
    pub additive: bool,
    pub appenders: Vec<usize>,
}

#[derive(Clone, Debug, Serialize, Deserialize, PartialEq)]
pub struct CfgSpec {
    pub appenders: Vec<AppSpec>,
    pub root_level: u8,
    pub root_appenders: Vec<usize>,
    pub loggers: Vec<LoggerSpec>,
}

#[derive(Clone, Debug, Serialize, Deserialize, PartialEq)]
pub enum LOp {
    Log { n: u16, target: String, level: u8 },
    SetConfig { v: u32 },
    /// (world G) a second initialisation attempt with configuration `v`: it
    /// must be rejected and must leave the installed logger and the facade alone
    SecondInit {
        v: u32,
        /// the rejected configuration owns an appender whose destructor panics
        /// (the caller survives it)
        #[serde(default)]
        bomb: bool,
    },
    /// (world G) application code sets the facade's max level directly; the
    /// next reconfiguration must install its own maximum again
    Perturb { level: u8 },
}

#[derive(Clone, Debug, Serialize, Deserialize, PartialEq)]
pub struct Scn {
    pub configs: Vec<CfgSpec>,
    pub threads: Vec<Vec<LOp>>,
    /// "C03" or "C15": which property's invariants are attributed
    pub prop: String,
    /// version 0 is written as a YAML file and loaded through
    /// `load_config_file` with custom appender / filter kinds (lossy path)
    #[serde(default)]
    pub file_v0: bool,
    /// (file_v0) these appenders are rendered with an unknown kind: lossy
    /// loading must drop them and every reference to them, nothing else
    #[serde(default)]
    pub broken: Vec<usize>,
    /// the error handler itself logs a record (target, level) for every error
    /// of a top-level record; errors of that nested record reach the handler too
    #[serde(default)]
    pub handler_logs: Option<(String, u8)>,
    pub sched_seed: u64,
    pub policy: kernel::Policy,
}

pub fn level_filter(l: u8) -> LevelFilter {
    match l {
        0 => LevelFilter::Off,
        1 => LevelFilter::Error,
        2 => LevelFilter::Warn,
        3 => LevelFilter::Info,
        4 => LevelFilter::Debug,
        _ => LevelFilter::Trace,
    }
}

pub fn level(l: u8) -> Level {
    match l {
        1 => Level::Error,
        2 => Level::Warn,
        3 => Level::Info,
        4 => Level::Debug,
        _ => Level::Trace,
    }
}

fn h2(seed: u64, id: RecId) -> u64 {
    let mut h = Fnv::default();
    h.write_u64(seed);
    h.write_u64(id.tid as u64);
    h.write_u64(id.n as u64);
    h.0 >> 7
}

pub fn script_response(seed: u64, id: RecId) -> Response {
    match h2(seed, id) % 4 {
        0 => Response::Accept,
        1 => Response::Reject,
        _ => Response::Neutral,
    }
}

fn fails(a: &AppSpec, id: RecId) -> bool {
    a.fail_num > 0 && (h2(a.fail_seed, id) % 4) < a.fail_num as u64
}

// ------------------------------------------------------- reference model

/// The routing reference model (C01): attachments, in order, that receive a
/// record with this target and level. One entry per attachment.
pub fn route(cfg: &CfgSpec, target: &str, lvl: u8) -> Vec<usize> {
    let tparts: Vec<&str> = target.split("::").collect();
    // effective logger: longest component-wise prefix
    let mut best: Option<&LoggerSpec> = None;
    let mut best_len = 0;
    for l in &cfg.loggers {
        let lp: Vec<&str> = l.name.split("::").collect();
        if lp.len() <= tparts.len() && lp[..] == tparts[..lp.len()] && lp.len() > best_len {
            best = Some(l);
            best_len = lp.len();
        }
    }
    let (threshold, apps) = match best {
        None => (cfg.root_level, cfg.root_appenders.clone()),
        Some(l) => (l.level, chain(cfg, l)),
    };
    if lvl <= threshold {
        apps
    } else {
        vec![]
    }
}

/// Threshold of the effective logger of `target`.
pub fn threshold(cfg: &CfgSpec, target: &str) -> u8 {
    let tparts: Vec<&str> = target.split("::").collect();
    let mut best = cfg.root_level;
    let mut best_len = 0;
    for l in &cfg.loggers {
        let lp: Vec<&str> = l.name.split("::").collect();
        if lp.len() <= tparts.len() && lp[..] == tparts[..lp.len()] && lp.len() > best_len {
            best = l.level;
            best_len = lp.len();
        }
    }
    best
}

/// Appenders of a logger: its own, then (if additive) its parent's chain.
fn chain(cfg: &CfgSpec, l: &LoggerSpec) -> Vec<usize> {
    let mut out = l.appenders.clone();
    if l.additive {
        let lp: Vec<&str> = l.name.split("::").collect();
        let mut parent: Option<&LoggerSpec> = None;
        let mut plen = 0;
        for c in &cfg.loggers {
            let cp: Vec<&str> = c.name.split("::").collect();
            if cp.len() < lp.len() && cp[..] == lp[..cp.len()] && cp.len() > plen {
                parent = Some(c);
                plen = cp.len();
            }
        }
        match parent {
            Some(p) => out.extend(chain(cfg, p)),
            None => out.extend(cfg.root_appenders.iter().copied()),
        }
    }
    out
}

pub fn max_level(cfg: &CfgSpec) -> u8 {
    cfg.loggers.iter().map(|l| l.level).chain(std::iter::once(cfg.root_level)).max().unwrap_or(0)
}

#[derive(Clone, Debug, PartialEq)]
pub enum Ev {
    Consult { app: usize, filter: usize, resp: u8 },
    Deliver { app: usize, failed: bool },
}

fn resp_code(r: &Response) -> u8 {
    match r {
        Response::Accept => 0,
        Response::Neutral => 1,
        Response::Reject => 2,
    }
}

/// Expected observable events of one record under one configuration, per attachment.
pub fn expected(cfg: &CfgSpec, target: &str, lvl: u8, id: RecId) -> Vec<Vec<Ev>> {
    let mut out = vec![];
    for app in route(cfg, target, lvl) {
        let a = &cfg.appenders[app];
        let mut evs = vec![];
        let mut deliver = true;
        for (fi, f) in a.filters.iter().enumerate() {
            match f {
                FilterSpec::Script { seed } => {
                    let r = script_response(*seed, id);
                    evs.push(Ev::Consult { app, filter: fi, resp: resp_code(&r) });
                    match r {
                        Response::Accept => break,
                        Response::Reject => {
                            deliver = false;
                            break;
                        }
                        Response::Neutral => {}
                    }
                }
                FilterSpec::Threshold { level } => {
                    // rejects exactly the records more verbose than its level
                    if lvl > *level {
                        deliver = false;
                        break;
                    }
                }
            }
        }
        if deliver {
            evs.push(Ev::Deliver { app, failed: fails(a, id) });
        }
        out.push(evs);
    }
    out
}

// ------------------------------------------------------------------ stubs

struct Obs {
    rec: RecId,
    version: u32,
    ev: Ev,
}

pub struct LShared {
    obs: Mutex<Vec<Obs>>,
    pub errors: Mutex<Vec<String>>,
    pub handle: OnceLock<Handle>,
    pub logger: OnceLock<Arc<log4rs::Logger>>,
    pub scn: Scn,
    pub sink: Arc<Sink>,
    pub ops: Mutex<Vec<lin::Op>>,
    /// record id -> (target, level)
    meta: Mutex<HashMap<RecId, (String, u8)>>,
    pub overlaps: Mutex<u64>,
    writes_in_flight: Mutex<u32>,
    reads_in_flight: Mutex<u32>,
    nested_seq: Mutex<u16>,
    /// C02: records go through the log macros and the process-global logger
    pub global: bool,
    /// C02 / init_raw_config: version 0 uses real file appenders in this directory
    pub file_dir: Option<std::path::PathBuf>,
}

impl std::fmt::Debug for LShared {
    fn fmt(&self, f: &mut std::fmt::Formatter<'_>) -> std::fmt::Result {
        f.write_str("LShared")
    }
}

fn rec_of(record: &log::Record) -> Option<RecId> {
    let s = record.args().to_string();
    let mut it = s.split('.');
    let t = it.next()?.parse().ok()?;
    let n = it.next()?.parse().ok()?;
    Some(RecId { tid: t, n })
}

/// Patterns for rendering appenders: (pattern, reference renderer pieces).
pub const PATTERNS: [&str; 6] = ["{l:>7}|{m:>12}|{t}", "{m:<8}{l}", "[{({l} {m}):>16.16}]", "{t:>7.9}:{m}", "{m}", "{m:>3}{l:>9}{t:>6.6}"];

fn pad(s: &str, right: bool, min: usize, max: usize) -> String {
    let t: String = s.chars().take(max).collect();
    let fill = " ".repeat(min.saturating_sub(t.chars().count()));
    if right {
        format!("{}{}", fill, t)
    } else {
        format!("{}{}", t, fill)
    }
}

/// What the pattern encoder must write for (pattern number, level, target, message).
pub fn reference_render(p: u8, lvl: Level, target: &str, msg: &str) -> String {
    let l = lvl.as_str();
    const NONE: usize = usize::MAX;
    match p {
        0 => format!("{}|{}|{}", pad(l, true, 7, NONE), pad(msg, true, 12, NONE), target),
        1 => format!("{}{}", pad(msg, false, 8, NONE), l),
        2 => format!("[{}]", pad(&format!("{} {}", l, msg), true, 16, 16)),
        3 => format!("{}:{}", pad(target, true, 7, 9), msg),
        4 => msg.to_string(),
        _ => format!("{}{}{}", pad(msg, true, 3, NONE), pad(l, true, 9, NONE), pad(target, true, 6, 6)),
    }
}

/// The rendering appender's sink: keeps what it is given, up to a budget.
#[derive(Debug)]
struct CapWriter {
    buf: Vec<u8>,
    budget: usize,
}

impl std::io::Write for CapWriter {
    fn write(&mut self, b: &[u8]) -> std::io::Result<usize> {
        if b.is_empty() {
            return Ok(0);
        }
        let room = self.budget.saturating_sub(self.buf.len());
        if room == 0 {
            return Err(std::io::Error::from_raw_os_error(libc::ENOSPC));
        }
        let n = room.min(b.len());
        self.buf.extend_from_slice(&b[..n]);
        Ok(n)
    }
    fn flush(&mut self) -> std::io::Result<()> {
        Ok(())
    }
}

impl log4rs::encode::Write for CapWriter {}

#[derive(Debug)]
struct CapAppender {
    version: u32,
    idx: usize,
    spec: AppSpec,
    sh: Arc<LShared>,
    enc: Option<log4rs::encode::pattern::PatternEncoder>,
    /// the appender's own buffer lock (simulated): held for the whole of
    /// `append`, needed by `flush`; never re-entrant, like a real mutex
    busy: std::sync::atomic::AtomicU32,
}

impl Append for CapAppender {
    fn append(&self, record: &log::Record) -> anyhow::Result<()> {
        kernel::point("cap.append");
        let id = match rec_of(record) {
            Some(i) => i,
            None => return Ok(()),
        };
        // nested records reach the same appender legitimately (it logs itself): counted, not exclusive
        self.busy.fetch_add(1, std::sync::atomic::Ordering::SeqCst);
        struct Release<'a>(&'a std::sync::atomic::AtomicU32);
        impl<'a> Drop for Release<'a> {
            fn drop(&mut self) {
                self.0.fetch_sub(1, std::sync::atomic::Ordering::SeqCst);
            }
        }
        let _release = Release(&self.busy);
        let failed = fails(&self.spec, id);
        self.sh.obs.lock().unwrap().push(Obs { rec: id, version: self.version, ev: Ev::Deliver { app: self.idx, failed } });
        kernel::note("deliver", &format!("{} v{} a{} failed={}", id, self.version, self.idx, failed));
        // re-entrancy, only for top-level records
        if id.tid < 500 {
            match &self.spec.reenter {
                Some(Reenter::SetConfig { v, sel }) if h2(*sel, id) % 3 == 0 => {
                    do_set_config(&self.sh, *v, true);
                }
                Some(Reenter::Log { target, level: l, sel }) if h2(*sel, id) % 3 == 0 => {
                    let nested = {
                        let mut q = self.sh.nested_seq.lock().unwrap();
                        *q += 1;
                        RecId { tid: id.tid + 500, n: *q }
                    };
                    do_log(&self.sh, nested, target, *l);
                }
                _ => {}
            }
        }
        if let (Some(enc), Some(p)) = (&self.enc, self.spec.render) {
            use log4rs::encode::Encode;
            // a failing delivery fails in the writer, somewhere inside the record
            let budget = if failed { (h2(self.spec.fail_seed ^ 0x5151, id) % 14) as usize } else { usize::MAX };
            let mut w = CapWriter { buf: vec![], budget };
            let res = enc.encode(&mut w, record);
            self.sh.sink.probe(if res.is_err() { "rendering_appender_writer_failures" } else { "rendering_appender_records" }, 1);
            if !failed {
                let want = reference_render(p, record.level(), record.target(), &record.args().to_string());
                if res.is_err() || w.buf != want.as_bytes() {
                    self.sh.sink.fail(
                        "C03",
                        "C03-I3",
                        "received-content",
                        format!("appender a{} (pattern {:?}) received {:?} for record {}, expected {:?}{}", self.idx, PATTERNS[p as usize % PATTERNS.len()], String::from_utf8_lossy(&w.buf), id, want, if res.is_err() { " (and its encoder failed)" } else { "" }),
                    );
                }
            }
        }
        kernel::point("cap.append.done");
        if failed {
            Err(anyhow::anyhow!("E:v{}:a{}:{}", self.version, self.idx, id))
        } else {
            Ok(())
        }
    }
    fn flush(&self) {
        // needs the buffer lock: blocks while an append of this appender is under way
        if let Some(k) = kernel::current() {
            let busy = &self.busy;
            k.block_here("cap.flush", &|| busy.load(std::sync::atomic::Ordering::SeqCst) == 0);
        }
    }
}

#[derive(Debug)]
struct ScriptFilter {
    version: u32,
    app: usize,
    idx: usize,
    seed: u64,
    sh: Arc<LShared>,
}

impl Filter for ScriptFilter {
    fn filter(&self, record: &log::Record) -> Response {
        kernel::point("filter");
        let id = match rec_of(record) {
            Some(i) => i,
            None => return Response::Neutral,
        };
        let r = script_response(self.seed, id);
        self.sh.obs.lock().unwrap().push(Obs { rec: id, version: self.version, ev: Ev::Consult { app: self.app, filter: self.idx, resp: resp_code(&r) } });
        r
    }
}

pub fn make_cap(version: u32, idx: usize, spec: AppSpec, sh: Arc<LShared>) -> Box<dyn Append> {
    let enc = spec.render.map(|p| log4rs::encode::pattern::PatternEncoder::new(PATTERNS[p as usize % PATTERNS.len()]));
    Box::new(CapAppender { version, idx, spec, sh, enc, busy: std::sync::atomic::AtomicU32::new(0) })
}

pub fn new_shared(scn: Scn, sink: Arc<Sink>, global: bool, file_dir: Option<std::path::PathBuf>) -> Arc<LShared> {
    Arc::new(LShared {
        obs: Mutex::new(vec![]),
        errors: Mutex::new(vec![]),
        handle: OnceLock::new(),
        logger: OnceLock::new(),
        scn,
        sink,
        ops: Mutex::new(vec![]),
        meta: Mutex::new(HashMap::new()),
        overlaps: Mutex::new(0),
        writes_in_flight: Mutex::new(0),
        reads_in_flight: Mutex::new(0),
        nested_seq: Mutex::new(0),
        global,
        file_dir,
    })
}

pub fn build_config(spec: &CfgSpec, version: u32, sh: &Arc<LShared>) -> Config {
    build_config_with(spec, version, sh, None)
}

/// An appender that receives nothing and whose destructor panics.
#[derive(Debug)]
pub struct Bomb;

impl Append for Bomb {
    fn append(&self, _: &log::Record) -> anyhow::Result<()> {
        Ok(())
    }
    fn flush(&self) {}
}

impl Drop for Bomb {
    fn drop(&mut self) {
        if !std::thread::panicking() {
            panic!("destructor of a user-supplied appender panics");
        }
    }
}

pub fn build_config_with(spec: &CfgSpec, version: u32, sh: &Arc<LShared>, extra: Option<Box<dyn Append>>) -> Config {
    let mut b = Config::builder();
    if let Some(x) = extra {
        b = b.appender(Appender::builder().build("extra", x));
    }
    for (i, a) in spec.appenders.iter().enumerate() {
        let mut ab = Appender::builder();
        for (fi, f) in a.filters.iter().enumerate() {
            ab = match f {
                FilterSpec::Script { seed } => ab.filter(Box::new(ScriptFilter { version, app: i, idx: fi, seed: *seed, sh: sh.clone() })),
                FilterSpec::Threshold { level } => ab.filter(Box::new(ThresholdFilter::new(level_filter(*level)))),
            };
        }
        b = b.appender(ab.build(format!("a{}", i), make_cap(version, i, a.clone(), sh.clone())));
    }
    for l in &spec.loggers {
        b = b.logger(CfgLogger::builder().additive(l.additive).appenders(l.appenders.iter().map(|i| format!("a{}", i))).build(l.name.clone(), level_filter(l.level)));
    }
    // every third version is built with another root level which is then
    // corrected through the public mutator Config::root_mut().set_level
    let detour = version % 3 == 1;
    let built_level = if detour { level_filter((spec.root_level + 3) % 6) } else { level_filter(spec.root_level) };
    let mut cfg = b
        .build(Root::builder().appenders(spec.root_appenders.iter().map(|i| format!("a{}", i))).build(built_level))
        .expect("generated configuration must be valid");
    if detour {
        cfg.root_mut().set_level(level_filter(spec.root_level));
    }
    cfg
}

pub fn do_set_config(sh: &Arc<LShared>, v: u32, nested: bool) {
    let cfg = build_config(&sh.scn.configs[v as usize], v, sh);
    let h = sh.handle.get().unwrap().clone();
    let s0 = kernel::stamp();
    kernel::note("set_config.invoke", &format!("v{} nested={}", v, nested));
    {
        let mut w = sh.writes_in_flight.lock().unwrap();
        *w += 1;
        if *sh.reads_in_flight.lock().unwrap() > 0 {
            *sh.overlaps.lock().unwrap() += 1;
        }
    }
    h.set_config(cfg);
    *sh.writes_in_flight.lock().unwrap() -= 1;
    let s1 = kernel::stamp();
    kernel::note("set_config.return", &format!("v{}", v));
    sh.ops.lock().unwrap().push(lin::Op { kind: lin::Kind::Write(v), invoke: s0, ret: s1, label: format!("set_config(v{})", v) });
}

/// Logs one record through the real logger and checks it (C03 / C15-I1).
pub fn do_log(sh: &Arc<LShared>, id: RecId, target: &str, lvl: u8) {
    sh.meta.lock().unwrap().insert(id, (target.to_string(), lvl));
    let text = format!("{}.{}", id.tid, id.n);
    let s0 = kernel::stamp();
    kernel::note("log.invoke", &format!("{} {:?} {}", id, target, lvl));
    {
        *sh.reads_in_flight.lock().unwrap() += 1;
        if *sh.writes_in_flight.lock().unwrap() > 0 {
            *sh.overlaps.lock().unwrap() += 1;
        }
    }
    if sh.global {
        log::log!(target: target, level(lvl), "{}", text);
    } else {
        let logger = sh.logger.get().unwrap().clone();
        log::Log::log(&*logger, &log::Record::builder().level(level(lvl)).target(target).args(format_args!("{}", text)).build());
    }
    *sh.reads_in_flight.lock().unwrap() -= 1;
    let s1 = kernel::stamp();
    kernel::note("log.return", &id.to_string());
    // observations of this record
    let mut mine: Vec<(u32, Ev)> = sh.obs.lock().unwrap().iter().filter(|o| o.rec == id).map(|o| (o.version, o.ev.clone())).collect();
    if let Some(dir) = &sh.file_dir {
        // version 0 was loaded through init_raw_config: real file appenders, one file per appender
        for app in 0..sh.scn.configs[0].appenders.len() {
            if let Ok(t) = std::fs::read_to_string(dir.join(format!("v0a{}.log", app))) {
                for _ in t.lines().filter(|l| *l == text) {
                    mine.push((0, Ev::Deliver { app, failed: false }));
                }
            }
        }
    }
    let prop: &str = &sh.scn.prop;
    let p: &'static str = if prop == "C15" { "C15" } else if prop == "C02" { "C02" } else { "C03" };
    let mut versions: Vec<u32> = mine.iter().map(|m| m.0).collect();
    versions.sort();
    versions.dedup();
    if versions.len() > 1 {
        sh.sink.fail(if p == "C02" { "C02" } else { "C15" }, if p == "C02" { "C02-I3" } else { "C15-I1" }, "mixture", format!("record {} ({:?}, level {}) was handled by stubs of configurations {:?} — a mixture", id, target, lvl, versions));
        return;
    }
    let nconf = sh.scn.configs.len() as u32;
    let acceptable: Vec<u32> = if let Some(v) = versions.first() {
        let exp = expected(&sh.scn.configs[*v as usize], target, lvl, id);
        let obs: Vec<Ev> = mine.iter().map(|m| m.1.clone()).collect();
        if let Some(msg) = compare(&sh.scn.configs[*v as usize], &exp, &obs) {
            let (inv, sig) = classify(p, &msg);
            sh.sink.fail(p, inv, sig, format!("record {} ({:?}, level {}) under configuration v{}: {}", id, target, lvl, v, msg.1));
            return;
        }
        vec![*v]
    } else {
        (0..nconf).filter(|v| expected(&sh.scn.configs[*v as usize], target, lvl, id).iter().all(|a| a.is_empty())).collect()
    };
    if acceptable.is_empty() {
        let inv = if p == "C15" { "C15-I1" } else if p == "C02" { "C02-I3" } else { "C03-I2" };
        sh.sink.fail(p, inv, "dropped", format!("record {} ({:?}, level {}) reached no appender and no filter, but every configuration routes it somewhere", id, target, lvl));
        return;
    }
    sh.ops.lock().unwrap().push(lin::Op { kind: lin::Kind::Read(acceptable.clone()), invoke: s0, ret: s1, label: format!("log({})->{:?}", id, acceptable) });
    // C03-I4: errors reach the handler exactly once (no reconfiguration in that profile)
    if p == "C03" {
        let want: Vec<String> = versions
            .first()
            .map(|v| {
                expected(&sh.scn.configs[*v as usize], target, lvl, id)
                    .into_iter()
                    .flatten()
                    .filter_map(|e| match e {
                        Ev::Deliver { app, failed: true } => Some(format!("E:v{}:a{}:{}", v, app, id)),
                        _ => None,
                    })
                    .collect()
            })
            .unwrap_or_default();
        let suffix = format!(":{}", id);
        let mut got: Vec<String> = sh.errors.lock().unwrap().iter().filter(|e| e.ends_with(&suffix)).cloned().collect();
        let mut want_s = want.clone();
        want_s.sort();
        got.sort();
        if want_s != got {
            sh.sink.fail("C03", "C03-I4", "handler-mismatch", format!("record {}: appender errors {:?} but the error handler received {:?}", id, want_s, got));
        }
    }
}

/// (kind, message) of the first difference between expectation and observation.
fn compare(cfg: &CfgSpec, exp: &[Vec<Ev>], obs: &[Ev]) -> Option<(&'static str, String)> {
    for app in 0..cfg.appenders.len() {
        let e: Vec<&Ev> = exp.iter().flatten().filter(|e| ev_app(e) == app).collect();
        let o: Vec<&Ev> = obs.iter().filter(|e| ev_app(e) == app).collect();
        if e != o {
            let kind = if e.iter().filter(|x| matches!(x, Ev::Deliver { .. })).count() != o.iter().filter(|x| matches!(x, Ev::Deliver { .. })).count() { "delivery" } else { "filters" };
            return Some((kind, format!("appender a{}: expected {:?}, observed {:?}", app, e, o)));
        }
    }
    None
}

fn ev_app(e: &Ev) -> usize {
    match e {
        Ev::Consult { app, .. } => *app,
        Ev::Deliver { app, .. } => *app,
    }
}

fn classify(p: &'static str, m: &(&'static str, String)) -> (&'static str, &'static str) {
    match (p, m.0) {
        ("C15", _) => ("C15-I1", "routing-differs"),
        ("C02", _) => ("C02-I3", "routing-differs"),
        (_, "delivery") => ("C03-I2", "delivery-differs"),
        _ => ("C03-I1", "filter-consultation-differs"),
    }
}

// -------------------------------------------------------------- generator

const NAMES: [&str; 9] = ["a", "a::b", "a::b::c", "ab", "b", "b::a", "a::bc", "a::b::c::d", "b::a::b"];
pub const TARGETS: [&str; 16] = ["a", "a::b", "a::b::c", "a::b::c::d::e", "ab", "ab::x", "a::bc", "a::b::cd", "b", "b::a::z", "", "a:", "a:::b", "::a", "a::", "zzz"];

pub fn gen_cfg(rng: &mut Rng, nconf: u32, prop: &str, _version: u32) -> CfgSpec {
    let napp = rng.range(1, 4) as usize;
    let mut appenders = vec![];
    for _ in 0..napp {
        let nf = if prop == "C03" { rng.weighted(&[2, 3, 3, 2, 1]) } else { rng.weighted(&[5, 2, 1]) };
        let filters = (0..nf)
            .map(|_| if rng.chance(3, 4) { FilterSpec::Script { seed: rng.next_u64() } } else { FilterSpec::Threshold { level: rng.range(0, 5) as u8 } })
            .collect();
        let reenter = if (prop == "C15" || prop == "C02") && rng.chance(1, 4) {
            // C02 quantifies over *sequences* of reconfigurations: only nested logging there
            if prop == "C15" && rng.chance(2, 3) {
                Some(Reenter::SetConfig { v: rng.below(nconf as u64) as u32, sel: rng.next_u64() })
            } else {
                Some(Reenter::Log { target: rng.pick(&TARGETS).to_string(), level: rng.range(1, 5) as u8, sel: rng.next_u64() })
            }
        } else {
            None
        };
        appenders.push(AppSpec { filters, fail_num: if prop == "C03" || prop == "C02" { *rng.pick(&[0u8, 0, 1, 2, 4]) } else { 0 }, fail_seed: rng.next_u64(), reenter, render: if prop == "C03" && rng.chance(1, 2) { Some(rng.below(PATTERNS.len() as u64) as u8) } else { None } });
    }
    let pick_apps = |rng: &mut Rng| -> Vec<usize> {
        let k = rng.weighted(&[2, 5, 2, 1]);
        (0..k).map(|_| rng.below(napp as u64) as usize).collect()
    };
    let nlog = rng.weighted(&[1, 2, 3, 3, 2, 1]);
    let mut names: Vec<&str> = NAMES.to_vec();
    rng.shuffle(&mut names);
    let mut loggers = vec![];
    for name in names.into_iter().take(nlog) {
        loggers.push(LoggerSpec { name: name.to_string(), level: rng.range(0, 5) as u8, additive: rng.chance(2, 3), appenders: pick_apps(rng) });
    }
    CfgSpec { appenders, root_level: rng.range(0, 5) as u8, root_appenders: pick_apps(rng), loggers }
}

/// 68 bytes: targets below it differ only beyond byte 64.
pub const LONG_PREFIX: &str = "payments_service::infrastructure::persistence::postgres::repositories";

/// The targets records are logged with and `enabled` is probed with: the fixed
/// list, plus - for configurations beyond the small name set - every logger
/// name, a child of it, and the long family.
pub fn target_pool(cfgs: &[CfgSpec]) -> Vec<String> {
    let mut v: Vec<String> = TARGETS.iter().map(|s| s.to_string()).collect();
    let scale = cfgs.iter().any(|c| c.loggers.iter().any(|l| !NAMES.contains(&l.name.as_str())));
    if scale {
        for c in cfgs {
            for l in &c.loggers {
                for t in [l.name.clone(), format!("{}::x", l.name)] {
                    if !v.contains(&t) {
                        v.push(t);
                    }
                }
            }
        }
        for t in ["orders", "events", "orderz", "orders::x"] {
            let t = format!("{}::{}", LONG_PREFIX, t);
            if !v.contains(&t) {
                v.push(t);
            }
        }
    }
    v
}

/// Configurations beyond small cases: hundreds of appenders, a dozen sibling
/// loggers with nested ones below them, more than eight appenders failing for
/// one record, logger names that differ only after their 64th byte.
pub fn gen_cfg_scale(rng: &mut Rng, prop: &str) -> CfgSpec {
    let napp = if prop == "C03" { *rng.pick(&[14usize, 40, 270, 300]) } else { *rng.pick(&[6usize, 14]) };
    let mut appenders: Vec<AppSpec> = (0..napp)
        .map(|_| {
            let filters = if rng.chance(1, 3) { vec![if rng.chance(1, 2) { FilterSpec::Script { seed: rng.next_u64() } } else { FilterSpec::Threshold { level: rng.range(0, 5) as u8 } }] } else { vec![] };
            AppSpec { filters, fail_num: if prop == "C03" || prop == "C02" { *rng.pick(&[0u8, 0, 0, 2, 4]) } else { 0 }, fail_seed: rng.next_u64(), reenter: None, render: None }
        })
        .collect();
    let pick = |rng: &mut Rng, k: usize| -> Vec<usize> { (0..k).map(|_| if rng.chance(1, 2) { napp - 1 - rng.below(napp.min(40) as u64) as usize } else { rng.below(napp as u64) as usize }).collect() };
    let nsib = rng.range(9, 14) as usize;
    let mut loggers = vec![];
    for k in 0..nsib {
        let n = rng.below(3) as usize;
        loggers.push(LoggerSpec { name: format!("svc{}", k), level: rng.range(0, 5) as u8, additive: rng.chance(2, 3), appenders: pick(rng, n) });
    }
    for _ in 0..rng.range(2, 4) {
        let k = rng.below(nsib as u64);
        let name = if rng.chance(1, 2) { format!("svc{}::inner", k) } else { format!("svc{}::inner::deep::er::and::deeper", k) };
        if !loggers.iter().any(|l: &LoggerSpec| l.name == name) {
            let n = rng.below(3) as usize;
            loggers.push(LoggerSpec { name, level: rng.range(0, 5) as u8, additive: rng.chance(2, 3), appenders: pick(rng, n) });
        }
    }
    let la = rng.range(0, 5) as u8;
    let lb = (la + 1 + rng.below(5) as u8) % 6;
    let n1 = rng.below(2) as usize;
    loggers.push(LoggerSpec { name: format!("{}::orders", LONG_PREFIX), level: la, additive: true, appenders: pick(rng, n1) });
    let n2 = rng.below(2) as usize;
    loggers.push(LoggerSpec { name: format!("{}::events", LONG_PREFIX), level: lb, additive: rng.chance(1, 2), appenders: pick(rng, n2) });
    if prop == "C03" || prop == "C02" {
        // one logger whose appenders all fail, more of them than any small table holds
        let many: Vec<usize> = (0..rng.range(9, 13) as usize).map(|i| (i * 7 + 3) % napp).collect();
        for i in &many {
            appenders[*i].fail_num = 4;
            appenders[*i].filters.clear();
        }
        loggers.push(LoggerSpec { name: "svc0::failing".into(), level: 5, additive: rng.chance(1, 2), appenders: many });
    }
    let nr = rng.below(3) as usize;
    CfgSpec { appenders, root_level: rng.range(0, 5) as u8, root_appenders: pick(rng, nr), loggers }
}

pub fn generate(rng: &mut Rng, tier: Tier, prop: &str) -> Scn {
    let nconf = if prop == "C15" { rng.range(2, 5) as u32 } else { 1 };
    let scale = rng.chance(1, 25);
    let configs: Vec<CfgSpec> = (0..nconf).map(|v| if scale { gen_cfg_scale(rng, prop) } else { gen_cfg(rng, nconf, prop, v) }).collect();
    let pool = target_pool(&configs);
    let nlog_threads = rng.range(1, 3) as usize;
    let mut threads = vec![];
    let mut reads = 0;
    for _ in 0..nlog_threads {
        let k = if tier == Tier::Thorough { rng.range(1, 8) } else { rng.range(1, 5) } as usize;
        let mut ops = vec![];
        for n in 0..k {
            if reads >= 16 {
                break;
            }
            reads += 1;
            ops.push(LOp::Log { n: n as u16, target: rng.pick(&pool).to_string(), level: rng.range(1, 5) as u8 });
        }
        threads.push(ops);
    }
    if prop == "C15" {
        let nre = rng.range(1, 2) as usize;
        let mut writes = 0;
        for _ in 0..nre {
            let k = rng.range(1, 3) as usize;
            let mut ops = vec![];
            for _ in 0..k {
                if writes >= 6 {
                    break;
                }
                writes += 1;
                ops.push(LOp::SetConfig { v: rng.below(nconf as u64) as u32 });
            }
            threads.push(ops);
        }
        // sometimes a thread that both logs and reconfigures
        if rng.chance(1, 3) {
            threads.push(vec![
                LOp::Log { n: 0, target: rng.pick(&pool).to_string(), level: rng.range(1, 5) as u8 },
                LOp::SetConfig { v: rng.below(nconf as u64) as u32 },
                LOp::Log { n: 1, target: rng.pick(&pool).to_string(), level: rng.range(1, 5) as u8 },
            ]);
        }
    }
    let handler_logs = if prop == "C03" && rng.chance(1, 4) { Some((rng.pick(&pool).to_string(), rng.range(1, 5) as u8)) } else { None };
    Scn { configs, threads, prop: prop.to_string(), file_v0: false, broken: vec![], handler_logs, sched_seed: rng.next_u64(), policy: common::gen_policy(rng) }
}

/// C03 through a configuration file: same space, version 0 rendered as YAML,
/// some appenders broken (unknown kind) while carrying valid filters.
pub fn generate_file(rng: &mut Rng, tier: Tier) -> Scn {
    let mut s = generate(rng, tier, "C03");
    s.file_v0 = true;
    let n = s.configs[0].appenders.len();
    for i in 0..n {
        if n > 1 && rng.chance(1, 3) && s.broken.len() + 1 < n {
            s.broken.push(i);
        }
    }
    s
}

const LEVEL_NAMES: [&str; 6] = ["off", "error", "warn", "info", "debug", "trace"];

pub fn render_yaml(cfg: &CfgSpec, broken: &[usize]) -> String {
    let mut s = String::from("appenders:\n");
    for (i, a) in cfg.appenders.iter().enumerate() {
        s.push_str(&format!("  a{}:\n", i));
        if broken.contains(&i) {
            s.push_str("    kind: nosuchkind\n");
        } else {
            s.push_str(&format!("    kind: cap\n    idx: {}\n", i));
        }
        if !a.filters.is_empty() {
            s.push_str("    filters:\n");
            for (fi, f) in a.filters.iter().enumerate() {
                match f {
                    FilterSpec::Threshold { level } => s.push_str(&format!("      - kind: threshold\n        level: {}\n", LEVEL_NAMES[*level as usize])),
                    FilterSpec::Script { seed } => s.push_str(&format!("      - kind: script\n        app: {}\n        idx: {}\n        seed: {}\n", i, fi, seed)),
                }
            }
        }
    }
    s.push_str(&format!("root:\n  level: {}\n  appenders: [{}]\n", LEVEL_NAMES[cfg.root_level as usize], cfg.root_appenders.iter().map(|i| format!("a{}", i)).collect::<Vec<_>>().join(", ")));
    if !cfg.loggers.is_empty() {
        s.push_str("loggers:\n");
        for l in &cfg.loggers {
            s.push_str(&format!("  \"{}\":\n    level: {}\n    additive: {}\n    appenders: [{}]\n", l.name, LEVEL_NAMES[l.level as usize], l.additive, l.appenders.iter().map(|i| format!("a{}", i)).collect::<Vec<_>>().join(", ")));
        }
    }
    s
}

/// What lossy loading must make of a document whose `broken` appenders cannot be built.
pub fn effective(cfg: &CfgSpec, broken: &[usize]) -> CfgSpec {
    let mut c = cfg.clone();
    c.root_appenders.retain(|i| !broken.contains(i));
    for l in &mut c.loggers {
        l.appenders.retain(|i| !broken.contains(i));
    }
    c
}

#[derive(serde::Deserialize)]
#[serde(deny_unknown_fields)]
struct CapFileConfig {
    idx: usize,
}

struct CapFileDeserializer {
    sh: Arc<OnceLock<Arc<LShared>>>,
    spec: CfgSpec,
}

impl log4rs::config::Deserialize for CapFileDeserializer {
    type Trait = dyn Append;
    type Config = CapFileConfig;
    fn deserialize(&self, config: CapFileConfig, _: &log4rs::config::Deserializers) -> anyhow::Result<Box<dyn Append>> {
        let sh = self.sh.get().expect("shared state").clone();
        Ok(make_cap(0, config.idx, self.spec.appenders[config.idx].clone(), sh))
    }
}

#[derive(serde::Deserialize)]
#[serde(deny_unknown_fields)]
struct ScriptFilterConfig {
    app: usize,
    idx: usize,
    seed: u64,
}

struct ScriptFilterDeserializer {
    sh: Arc<OnceLock<Arc<LShared>>>,
}

impl log4rs::config::Deserialize for ScriptFilterDeserializer {
    type Trait = dyn Filter;
    type Config = ScriptFilterConfig;
    fn deserialize(&self, c: ScriptFilterConfig, _: &log4rs::config::Deserializers) -> anyhow::Result<Box<dyn Filter>> {
        let sh = self.sh.get().expect("shared state").clone();
        Ok(Box::new(ScriptFilter { version: 0, app: c.app, idx: c.idx, seed: c.seed, sh }))
    }
}

/// Loads version 0 from a YAML file through the public lossy loader.
fn load_v0_from_file(scn: &Scn, sh: &Arc<LShared>, dir: &std::path::Path) -> anyhow::Result<Config> {
    let p = dir.join("log4rs.yaml");
    std::fs::write(&p, render_yaml(&scn.configs[0], &scn.broken))?;
    let cell = Arc::new(OnceLock::new());
    let _ = cell.set(sh.clone());
    let mut d = log4rs::config::Deserializers::default();
    d.insert("cap", CapFileDeserializer { sh: cell.clone(), spec: scn.configs[0].clone() });
    d.insert("script", ScriptFilterDeserializer { sh: cell });
    log4rs::config::load_config_file(&p, d)
}

// ---------------------------------------------------------------- executor

pub fn execute(scn: &Scn, opts: &ExecOpts) -> Outcome {
    let mut out = Outcome::default();
    let sink = Arc::new(Sink::default());
    let mut oracle_scn = scn.clone();
    if scn.file_v0 {
        oracle_scn.configs[0] = effective(&scn.configs[0], &scn.broken);
    }
    let sh = Arc::new(LShared {
        obs: Mutex::new(vec![]),
        errors: Mutex::new(vec![]),
        handle: OnceLock::new(),
        logger: OnceLock::new(),
        scn: oracle_scn,
        sink: sink.clone(),
        ops: Mutex::new(vec![]),
        meta: Mutex::new(HashMap::new()),
        overlaps: Mutex::new(0),
        writes_in_flight: Mutex::new(0),
        reads_in_flight: Mutex::new(0),
        nested_seq: Mutex::new(0),
        global: false,
        file_dir: None,
    });
    let sched = opts.sched.clone().unwrap_or(Sched::Prng { seed: scn.sched_seed, policy: scn.policy.clone() });
    let k = common::begin(RunCfg { sched, trace: opts.trace, start_ns: common::T0_NS, tz: None, faults: vec![], crash: None, rand_script: vec![], step_cap: 50_000 });
    let sh_err = sh.clone();
    let scratch = if scn.file_v0 { Some(crate::fsutil::Scratch::new("lfile")) } else { None };
    let config0 = match &scratch {
        Some(sc) => match load_v0_from_file(scn, &sh, &sc.root) {
            Ok(c) => c,
            Err(e) => {
                sink.fail("C03", "C03-E0", "load-failed", format!("lossy loading of a document with a broken appender failed altogether: {:#}", e));
                build_config(&effective(&scn.configs[0], &scn.broken), 0, &sh)
            }
        },
        None => build_config(&scn.configs[0], 0, &sh),
    };
    let logger = Arc::new(log4rs::Logger::new_with_err_handler(
        config0,
        Box::new(move |e: &anyhow::Error| {
            kernel::point("err.handler");
            let text = e.to_string();
            sh_err.errors.lock().unwrap().push(text.clone());
            // a handler that reports through the logger itself: only for errors of top-level records
            if let Some((target, lvl)) = &sh_err.scn.handler_logs {
                let outer = text.rsplit(':').next().and_then(|s| {
                    let mut it = s.split('.');
                    Some(RecId { tid: it.next()?.parse().ok()?, n: it.next()?.parse().ok()? })
                });
                if let Some(outer) = outer.filter(|o| o.tid < 500) {
                    let nested = {
                        let mut q = sh_err.nested_seq.lock().unwrap();
                        *q += 1;
                        RecId { tid: outer.tid + 500, n: *q }
                    };
                    sh_err.sink.probe("records_logged_by_the_error_handler", 1);
                    do_log(&sh_err, nested, target, *lvl);
                }
            }
        }),
    ));
    let _ = sh.handle.set(logger.verif_handle());
    let _ = sh.logger.set(logger.clone());
    let mut bodies: Vec<Box<dyn FnOnce() + Send>> = vec![];
    for (ti, ops) in scn.threads.iter().enumerate() {
        let ops = ops.clone();
        let sh = sh.clone();
        bodies.push(Box::new(move || {
            for op in ops {
                if sh.sink.any() {
                    break;
                }
                match op {
                    LOp::Log { n, target, level } => do_log(&sh, RecId { tid: ti as u16, n }, &target, level),
                    LOp::SetConfig { v } => do_set_config(&sh, v, false),
                    LOp::SecondInit { .. } | LOp::Perturb { .. } => {}
                }
                kernel::point("op.done");
            }
        }));
    }
    let panics = k.run_phase(bodies, common::WATCHDOG_S);
    let p: &'static str = if scn.prop == "C15" { "C15" } else { "C03" };
    for (t, msg) in panics {
        if t == usize::MAX {
            // a stall here means a lock was taken re-entrantly: a deadlock the property forbids
            if p == "C15" {
                sink.fail("C15", "C15-I3", "stall", "a thread stopped making progress (deadlock) during reconfiguration".into());
            }
            out.harness_error = Some("STALL: a simulated thread did not reach a decision point".into());
        } else {
            sink.fail(p, if p == "C15" { "C15-I3" } else { "C03-E0" }, "panic", format!("thread panicked: {}", msg));
        }
    }
    if let Some(a) = k.abort_reason() {
        match a {
            kernel::Abort::Deadlock(d) if p == "C15" => sink.fail("C15", "C15-I3", "deadlock", format!("deadlock: {}", d)),
            a => out.harness_error = Some(format!("run aborted: {:?}", a)),
        }
    }
    // C15-I2: register linearizability of the history
    if !sink.any() && out.harness_error.is_none() && scn.prop == "C15" {
        let ops = sh.ops.lock().unwrap().clone();
        if let Some(h) = lin::check_regular(&ops, 0) {
            sink.fail("C15", "C15-I2", "stale-or-foreign-config", format!("a record was routed under a configuration that was neither in force nor being installed: {}", h));
        } else if lin::check(&ops, 0).is_some() {
            // stronger than the property (two sequential records may see new then old while a swap is in flight)
            sink.probe("histories_regular_but_not_linearizable", 1);
        }
    }
    let overlaps = *sh.overlaps.lock().unwrap();
    let (summary, _) = common::end(&k);
    let (v, probes) = sink.take();
    out.violations = v;
    out.probes = probes;
    let obs = sh.obs.lock().unwrap();
    let failed = obs.iter().filter(|o| matches!(o.ev, Ev::Deliver { failed: true, .. })).count() as u64;
    let shortcut = obs.iter().filter(|o| matches!(o.ev, Ev::Consult { resp: 0 | 2, .. })).count() as u64;
    out.probe("deliveries", obs.iter().filter(|o| matches!(o.ev, Ev::Deliver { .. })).count() as u64);
    out.probe("failed_deliveries", failed);
    out.probe("filter_short_circuits", shortcut);
    out.probe("swap_overlapping_log", overlaps);
    out.nontrivial = if scn.prop == "C15" { overlaps > 0 } else { failed > 0 || shortcut > 0 };
    out.summary = summary;
    let _: BTreeMap<u8, u8> = BTreeMap::new();
    out
}

pub fn size(s: &Scn) -> usize {
    s.threads.iter().map(|t| 1 + t.len()).sum::<usize>() + s.configs.iter().map(|c| 1 + c.loggers.len() + c.appenders.iter().map(|a| 1 + a.filters.len()).sum::<usize>()).sum::<usize>()
}

pub fn shrink(s: &Scn) -> Vec<Scn> {
    let mut out = vec![];
    if s.handler_logs.is_some() {
        let mut c = s.clone();
        c.handler_logs = None;
        out.push(c);
    }
    if s.threads.len() > 1 {
        for i in 0..s.threads.len() {
            let mut c = s.clone();
            c.threads.remove(i);
            out.push(c);
        }
    }
    for (ti, t) in s.threads.iter().enumerate() {
        for oi in 0..t.len() {
            let mut c = s.clone();
            c.threads[ti].remove(oi);
            out.push(c);
        }
    }
    for i in 0..s.broken.len() {
        let mut c = s.clone();
        c.broken.remove(i);
        out.push(c);
    }
    for (ci, cfg) in s.configs.iter().enumerate() {
        for li in 0..cfg.loggers.len() {
            let mut c = s.clone();
            c.configs[ci].loggers.remove(li);
            out.push(c);
        }
        for (ai, a) in cfg.appenders.iter().enumerate() {
            for fi in 0..a.filters.len() {
                let mut c = s.clone();
                c.configs[ci].appenders[ai].filters.remove(fi);
                out.push(c);
            }
            if a.reenter.is_some() {
                let mut c = s.clone();
                c.configs[ci].appenders[ai].reenter = None;
                out.push(c);
            }
            if a.fail_num > 0 {
                let mut c = s.clone();
                c.configs[ci].appenders[ai].fail_num = 0;
                out.push(c);
            }
        }
    }
    out
}
