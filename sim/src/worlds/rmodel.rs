//! Directory reference model shared by worlds R and R0 (Appendix C of
//! DESIGN.md): expected bytes of the active file, of every managed archive
//! name, and of every other file in the scratch tree.

use std::{
    collections::BTreeMap,
    fs,
    path::{Path, PathBuf},
};

use log4rs::append::rolling_file::policy::compound::roll::{delete::DeleteRoller, fixed_window::FixedWindowRoller, Roll};
use serde::{Deserialize, Serialize};

use crate::{
    frame::{self, RecId},
    fsutil::{self, Entry},
    Sink,
};

#[derive(Clone, Copy, Debug, Serialize, Deserialize, PartialEq)]
pub enum PatKind {
    /// arch/app.{}.log
    Name,
    /// arch/{}/app.log
    Dir,
    /// arch/{}/app.{}.log
    Repeated,
    /// $ENV{VERIF_ARCH}/app.{}.log
    Env,
    /// pattern on a second mount (real EXDEV → copy + delete)
    SecondMount,
    /// arch/app.{}.log.gz (gzip build only)
    Gz,
    /// arch/{}/app/foo.log: the index in an inner directory component
    DirInner,
    /// arch/$ENV{VERIF_UNSET}-x/$ENV{VERIF_SUB}/app.{}.log: an unset variable
    /// (left as it is) in front of a set one
    EnvTwo,
    /// arch/{}-$ENV{VERIF_TEAM}.log with VERIF_TEAM = "team/api": the index ends
    /// up in a directory component only after expansion
    EnvSlash,
    /// arch/{}/app.log where the directories of odd indices live on a second
    /// mount (symlinks): every shift crosses a filesystem boundary
    DirSplit,
}

#[derive(Clone, Debug, Serialize, Deserialize, PartialEq)]
pub enum RollerSpec {
    Delete,
    Fixed { pat: PatKind, base: u32, count: u32 },
}

/// Content of the file placed where a directory is needed (C08 obstacle).
pub const OBSTACLE_MARK: &[u8] = b"\0verif-obstacle-file\0";

pub struct Names {
    pub root: PathBuf,
    pub root2: Option<PathBuf>,
    pub active: PathBuf,
    /// pattern as handed to the roller (may contain $ENV{..})
    pub pat_cfg: String,
    /// pattern with the environment reference resolved
    pub pat_real: String,
    pub gz: bool,
    /// DirSplit: where the directories of odd indices really live
    pub split_root: Option<PathBuf>,
}

impl Names {
    pub fn new(root: &Path, root2: Option<&Path>, roller: &RollerSpec) -> Names {
        let arch = root.join("arch");
        let (pat_cfg, pat_real, gz) = match roller {
            RollerSpec::Delete => (String::new(), String::new(), false),
            RollerSpec::Fixed { pat, .. } => {
                let a = arch.to_string_lossy().to_string();
                match pat {
                    PatKind::Name => (format!("{}/app.{{}}.log", a), format!("{}/app.{{}}.log", a), false),
                    PatKind::Dir | PatKind::DirSplit => (format!("{}/{{}}/app.log", a), format!("{}/{{}}/app.log", a), false),
                    PatKind::Repeated => (format!("{}/{{}}/app.{{}}.log", a), format!("{}/{{}}/app.{{}}.log", a), false),
                    PatKind::Env => {
                        std::env::set_var("VERIF_ARCH", &a);
                        ("$ENV{VERIF_ARCH}/app.{}.log".to_string(), format!("{}/app.{{}}.log", a), false)
                    }
                    PatKind::DirInner => (format!("{}/{{}}/app/foo.log", a), format!("{}/{{}}/app/foo.log", a), false),
                    PatKind::EnvTwo => {
                        std::env::remove_var("VERIF_UNSET");
                        std::env::set_var("VERIF_SUB", "sub");
                        (format!("{}/$ENV{{VERIF_UNSET}}-x/$ENV{{VERIF_SUB}}/app.{{}}.log", a), format!("{}/$ENV{{VERIF_UNSET}}-x/sub/app.{{}}.log", a), false)
                    }
                    PatKind::EnvSlash => {
                        std::env::set_var("VERIF_TEAM", "team/api");
                        (format!("{}/{{}}-$ENV{{VERIF_TEAM}}.log", a), format!("{}/{{}}-team/api.log", a), false)
                    }
                    PatKind::SecondMount => {
                        let r2 = root2.map(|p| p.to_string_lossy().to_string()).unwrap_or(a.clone());
                        (format!("{}/app.{{}}.log", r2), format!("{}/app.{{}}.log", r2), false)
                    }
                    PatKind::Gz => (format!("{}/app.{{}}.log.gz", a), format!("{}/app.{{}}.log.gz", a), true),
                }
            }
        };
        let split = matches!(roller, RollerSpec::Fixed { pat: PatKind::DirSplit, .. });
        Names {
            split_root: if split { root2.map(|p| p.to_path_buf()) } else { None },
            root: root.to_path_buf(),
            root2: if split { None } else { root2.map(|p| p.to_path_buf()) },
            active: root.join("log").join("app.log"),
            pat_cfg,
            pat_real,
            gz,
        }
    }

    pub fn arch(&self, i: u32) -> PathBuf {
        PathBuf::from(self.pat_real.replace("{}", &i.to_string()))
    }

    pub fn key(&self, p: &Path) -> String {
        if let Ok(r) = p.strip_prefix(&self.root) {
            return r.to_string_lossy().to_string();
        }
        if let Some(r2) = &self.root2 {
            if let Ok(r) = p.strip_prefix(r2) {
                return format!("@2/{}", r.to_string_lossy());
            }
        }
        p.to_string_lossy().to_string()
    }

    /// Files (not directories) under both roots, keyed relative.
    pub fn snapshot(&self) -> BTreeMap<String, Vec<u8>> {
        let mut out = BTreeMap::new();
        for (k, v) in fsutil::snapshot(&self.root) {
            // files of C08 obstacles (non-empty directories placed at archive names)
            if k.contains("/keep/") {
                continue;
            }
            if let Entry::File(b) = v {
                if b == OBSTACLE_MARK {
                    continue;
                }
                out.insert(k, b);
            }
        }
        if let Some(r2) = &self.root2 {
            for (k, v) in fsutil::snapshot(r2) {
                if k.contains("/keep/") {
                    continue;
                }
                if let Entry::File(b) = v {
                    out.insert(format!("@2/{}", k), b);
                }
            }
        }
        out
    }

    pub fn dirs(&self) -> Vec<String> {
        let mut out = vec![];
        for (k, v) in fsutil::snapshot(&self.root) {
            if v == Entry::Dir {
                out.push(k);
            }
        }
        out
    }
}

pub fn build_roller(spec: &RollerSpec, names: &Names) -> anyhow::Result<Box<dyn Roll>> {
    Ok(match spec {
        RollerSpec::Delete => Box::new(DeleteRoller::new()),
        RollerSpec::Fixed { base, count, .. } => Box::new(FixedWindowRoller::builder().base(*base).build(&names.pat_cfg, *count)?),
    })
}

#[cfg(feature = "gzip")]
pub fn gunzip(b: &[u8]) -> Result<Vec<u8>, String> {
    use std::io::Read;
    let mut d = flate2::read::GzDecoder::new(b);
    let mut out = vec![];
    d.read_to_end(&mut out).map_err(|e| e.to_string())?;
    Ok(out)
}

#[cfg(not(feature = "gzip"))]
pub fn gunzip(_b: &[u8]) -> Result<Vec<u8>, String> {
    Err("gzip support not built".into())
}

/// Where a mismatch is attributed.
#[derive(Clone, Copy)]
pub struct Attr {
    pub prop: &'static str,
    /// archive / active content differs from the model
    pub data: &'static str,
    /// a file outside the managed names changed, vanished or appeared
    pub other_prop: &'static str,
    pub other: &'static str,
    /// appended to data signatures (fault configurations: the open mode)
    pub sig: &'static str,
    /// a second property whose statement the same mismatch contradicts (e.g.
    /// C17-I3 / C16-I4: where the rolled content and the triggering record end up)
    pub also: Option<(&'static str, &'static str)>,
}

fn fail_data(sink: &Sink, at: &Attr, sig: &str, msg: String) {
    let sig = format!("{}{}", sig, at.sig);
    if let Some((p, i)) = at.also {
        sink.fail(p, i, &sig, msg.clone());
    }
    sink.fail(at.prop, at.data, &sig, msg);
}

pub struct Model {
    pub roller: RollerSpec,
    /// confirmed bytes of the active file
    pub active: Vec<u8>,
    /// record currently being encoded by the thread inside the appender
    pub pending: Option<(RecId, Vec<u8>)>,
    /// bytes a failed encoder left in the appender's user-space buffer: they
    /// reach the file with the next flush (or when the writer is closed)
    pub limbo: Vec<u8>,
    /// records whose append failed (injected encoder error): unacknowledged,
    /// they may still show up whole if the encoder had written all of their bytes
    pub unacked: std::collections::HashSet<RecId>,
    /// managed archive index → uncompressed content
    pub window: BTreeMap<u32, Vec<u8>>,
    /// every other file (relative key → bytes)
    pub others: BTreeMap<String, Vec<u8>>,
    /// records in placement order, historic ones first
    pub stream: Vec<RecId>,
    pub rolls_ok: u64,
}

impl Model {
    /// Truncate mode discards the active chunk at open: its acknowledged
    /// records are the tail of the stream.
    pub fn discard_active(&mut self) {
        let n = frame::whole_ids(&self.active).into_iter().filter(|i| !self.unacked.contains(i)).count();
        let keep = self.stream.len().saturating_sub(n);
        self.stream.truncate(keep);
        self.active.clear();
    }

    pub fn managed(&self) -> Vec<u32> {
        match &self.roller {
            RollerSpec::Delete => vec![],
            RollerSpec::Fixed { base, count, .. } => (*base..*base + *count).collect(),
        }
    }

    /// Applies one completed roll of the active file.
    pub fn on_roll(&mut self) {
        let mut chunk = std::mem::take(&mut self.active);
        // closing the writer flushes what a failed encoder left behind
        chunk.extend_from_slice(&std::mem::take(&mut self.limbo));
        if let Some((_, p)) = self.pending.take() {
            // post-processing trigger: the record was written and flushed before the roll
            chunk.extend_from_slice(&p);
        }
        self.shift_in(chunk);
        self.rolls_ok += 1;
    }

    pub fn shift_in(&mut self, chunk: Vec<u8>) {
        match self.roller.clone() {
            RollerSpec::Delete => {}
            RollerSpec::Fixed { count: 0, .. } => {}
            RollerSpec::Fixed { base, count, .. } => {
                for i in (base..base + count - 1).rev() {
                    if let Some(c) = self.window.remove(&i) {
                        self.window.insert(i + 1, c);
                    }
                }
                self.window.insert(base, chunk);
            }
        }
    }

    /// Expected files: key → (bytes, is_compressed_archive)
    pub fn expected(&self, names: &Names) -> BTreeMap<String, (Vec<u8>, bool)> {
        let mut m = BTreeMap::new();
        for (k, v) in &self.others {
            m.insert(k.clone(), (v.clone(), false));
        }
        for (i, v) in &self.window {
            m.insert(names.key(&names.arch(*i)), (v.clone(), names.gz));
        }
        m
    }

    /// Compares the on-disk tree with the model. `allow_pending`: another
    /// thread may be inside the appender, so the active file may additionally
    /// hold a prefix of the pending record.
    pub fn check(&self, names: &Names, sink: &Sink, at: Attr, allow_pending: bool, when: &str) -> bool {
        let actual = names.snapshot();
        let akey = names.key(&names.active);
        let expected = self.expected(names);
        for (k, (want, gz)) in &expected {
            match actual.get(k) {
                None => {
                    let is_arch = self.window.iter().any(|(i, _)| names.key(&names.arch(*i)) == *k);
                    if is_arch {
                        fail_data(sink, &at, "archive-missing", format!("{}: archive {} ({} bytes expected) does not exist; tree: {}", when, k, want.len(), brief(&actual)));
                    } else {
                        sink.fail(at.other_prop, at.other, "bystander-removed", format!("{}: file {} outside the managed names was removed", when, k));
                    }
                    return false;
                }
                Some(have) => {
                    let have_plain = if *gz {
                        match gunzip(have) {
                            Ok(p) => p,
                            Err(e) => {
                                fail_data(sink, &at, "archive-corrupt", format!("{}: archive {} does not decompress: {}", when, k, e));
                                return false;
                            }
                        }
                    } else {
                        have.clone()
                    };
                    if &have_plain != want {
                        let is_arch = self.window.iter().any(|(i, _)| names.key(&names.arch(*i)) == *k);
                        if is_arch {
                            fail_data(
                                sink,
                                &at,
                                "archive-content",
                                format!("{}: archive {} holds {:?}, expected {:?}", when, k, frame::whole_ids(&have_plain).iter().map(|i| i.to_string()).collect::<Vec<_>>(), frame::whole_ids(want).iter().map(|i| i.to_string()).collect::<Vec<_>>()),
                            );
                        } else {
                            sink.fail(at.other_prop, at.other, "bystander-modified", format!("{}: file {} outside the managed names was modified ({} -> {} bytes)", when, k, want.len(), have.len()));
                        }
                        return false;
                    }
                }
            }
        }
        for (k, have) in &actual {
            if *k == akey {
                continue;
            }
            if !expected.contains_key(k) {
                sink.fail(at.other_prop, "C07-I2", "stray-file", format!("{}: unexpected file {} ({} bytes: {:?}); tree: {}", when, k, have.len(), frame::whole_ids(have).iter().map(|i| i.to_string()).collect::<Vec<_>>(), brief(&actual)));
                return false;
            }
        }
        // active file (a missing file counts as empty)
        let empty = vec![];
        let have = actual.get(&akey).unwrap_or(&empty);
        let ok = if have == &self.active {
            true
        } else if have.starts_with(&self.active) {
            // a prefix of: leftovers of failed encodes, then (if someone is inside) the pending record
            let mut tail = self.limbo.clone();
            if let (true, Some((_, p))) = (allow_pending, &self.pending) {
                tail.extend_from_slice(p);
            }
            tail.starts_with(&have[self.active.len()..])
        } else {
            false
        };
        if !ok {
            fail_data(
                sink,
                &at,
                "active-content",
                format!(
                    "{}: active file holds {:?} ({} bytes), expected {:?} ({} bytes){}; tree: {}",
                    when,
                    frame::whole_ids(have).iter().map(|i| i.to_string()).collect::<Vec<_>>(),
                    have.len(),
                    frame::whole_ids(&self.active).iter().map(|i| i.to_string()).collect::<Vec<_>>(),
                    self.active.len(),
                    self.pending.as_ref().map(|(i, _)| format!(" (+ in flight {})", i)).unwrap_or_default(),
                    brief(&actual)
                ),
            );
            return false;
        }
        true
    }

    /// Independent of the byte model: reading archives oldest→newest then the
    /// active file must give a contiguous run of `stream` ending at its end
    /// (C05-I2), with every record exactly once (C05-I1).
    pub fn check_stream(&self, names: &Names, sink: &Sink, prop: &'static str, inv: &'static str, when: &str) -> bool {
        let actual = names.snapshot();
        let mut seq: Vec<RecId> = vec![];
        let mut idx = self.managed();
        idx.reverse();
        for i in idx {
            if let Some(b) = actual.get(&names.key(&names.arch(i))) {
                let plain = if names.gz { gunzip(b).unwrap_or_default() } else { b.clone() };
                seq.extend(frame::whole_ids(&plain).into_iter().filter(|i| !self.unacked.contains(i)));
            }
        }
        if let Some(b) = actual.get(&names.key(&names.active)) {
            seq.extend(frame::whole_ids(b).into_iter().filter(|i| !self.unacked.contains(i)));
        }
        if seq.is_empty() {
            return true;
        }
        // must equal stream[k..] for some k
        let n = seq.len();
        if n > self.stream.len() || self.stream[self.stream.len() - n..] != seq[..] {
            sink.fail(
                prop,
                inv,
                "stream-order",
                format!(
                    "{}: reading archives oldest to newest then the active file yields {:?}, which is not a gap-free suffix of the written stream {:?}",
                    when,
                    seq.iter().map(|i| i.to_string()).collect::<Vec<_>>(),
                    self.stream.iter().map(|i| i.to_string()).collect::<Vec<_>>()
                ),
            );
            return false;
        }
        true
    }
}

pub fn brief(t: &BTreeMap<String, Vec<u8>>) -> String {
    t.iter().map(|(k, v)| format!("{}[{}]", k, v.len())).collect::<Vec<_>>().join(" ")
}

/// Writes a pre-existing archive (compressing when the pattern asks for it).
pub fn write_archive(p: &Path, plain: &[u8], gz: bool) {
    if let Some(d) = p.parent() {
        fs::create_dir_all(d).unwrap();
    }
    if gz {
        #[cfg(feature = "gzip")]
        {
            use std::io::Write;
            let mut e = flate2::write::GzEncoder::new(fs::File::create(p).unwrap(), flate2::Compression::default());
            e.write_all(plain).unwrap();
            e.finish().unwrap();
            return;
        }
    }
    fs::write(p, plain).unwrap();
}

// ------------------------------------------------------------------ C08

/// What the model knew right before the failing step.
#[derive(Clone, Debug, Default)]
pub struct PreState {
    pub active: Vec<u8>,
    pub pending: Option<(RecId, Vec<u8>)>,
    pub window: BTreeMap<u32, Vec<u8>>,
}

pub struct InstantCtx<'a> {
    pub names: &'a Names,
    pub roller: &'a RollerSpec,
    pub tree: &'a BTreeMap<String, Vec<u8>>,
    pub pre: &'a PreState,
    /// the failure / crash happened while a rotation was under way
    pub in_roll: bool,
    /// records whose append has not returned Ok: may be present, absent or torn
    pub unacked: &'a std::collections::HashSet<RecId>,
    /// the fault / crash site is inside the compress step: a (possibly torn)
    /// duplicate of the newest chunk at the base archive is tolerated
    pub compress_site: bool,
    /// undecodable compressed archives are remnants of an earlier crash during
    /// compression (the source was intact then): skip them wherever they are
    pub tolerate_corrupt: bool,
    pub stream: &'a [RecId],
    pub when: &'a str,
}

fn managed_of(r: &RollerSpec) -> Vec<u32> {
    match r {
        RollerSpec::Delete => vec![],
        RollerSpec::Fixed { base, count, .. } => (*base..*base + *count).collect(),
    }
}

/// C08-I2 and C08-I3 at a failure or crash instant. Returns false after reporting.
pub fn check_instant(c: &InstantCtx, sink: &Sink) -> bool {
    let names = c.names;
    let managed = managed_of(c.roller);
    let akey = names.key(&names.active);
    // plain contents of every managed name and the active path
    let mut plain: Vec<(String, Option<Vec<u8>>)> = vec![];
    for i in managed.iter().rev() {
        let k = names.key(&names.arch(*i));
        if let Some(b) = c.tree.get(&k) {
            let p = if names.gz { gunzip(b).ok() } else { Some(b.clone()) };
            plain.push((k, p));
        }
    }
    if let Some(b) = c.tree.get(&akey) {
        plain.push((akey.clone(), Some(b.clone())));
    }
    // ---- I2: every chunk the completed rotation would retain is intact somewhere
    let mut required: Vec<(String, Vec<u8>, Option<Vec<u8>>)> = vec![]; // (what, bytes, optional in-flight tail)
    let (base, count) = match c.roller {
        RollerSpec::Fixed { base, count, .. } => (*base, *count),
        RollerSpec::Delete => (0, 0),
    };
    let active_retained = !(c.in_roll && count == 0);
    if active_retained && !c.pre.active.is_empty() {
        required.push(("the active chunk".into(), c.pre.active.clone(), c.pre.pending.as_ref().map(|p| p.1.clone())));
    }
    for (i, w) in &c.pre.window {
        let evicted = c.in_roll && count > 0 && *i == base + count - 1;
        if !evicted && !w.is_empty() {
            required.push((format!("the chunk of archive {}", i), w.clone(), None));
        }
    }
    for (what, bytes, tail) in &required {
        let found = plain.iter().any(|(_, p)| match p {
            None => false,
            Some(p) => {
                if p == bytes {
                    true
                } else if let Some(t) = tail {
                    p.starts_with(bytes) && t.starts_with(&p[bytes.len()..])
                } else {
                    // the active chunk may have grown by unacknowledged data only
                    false
                }
            }
        });
        if !found {
            sink.fail("C05", "C05-I3", "chunk-lost-after-fault", format!("{}: {} is not intact under any managed name or the active path", c.when, what));
            sink.fail(
                "C08",
                "C08-I2",
                "chunk-lost",
                format!("{}: {} ({:?}) is not intact under any managed name or the active path; tree: {}", c.when, what, frame::whole_ids(bytes).iter().map(|i| i.to_string()).collect::<Vec<_>>(), brief(c.tree)),
            );
            return false;
        }
    }
    // ---- I3: oldest-to-newest reading is a gap-free suffix of the stream
    let mut files: Vec<(String, Vec<frame::Item>)> = vec![];
    for (k, p) in &plain {
        match p {
            Some(p) => files.push((k.clone(), frame::scan(p, 0))),
            None => {
                if !(c.tolerate_corrupt || (c.compress_site && *k == names.key(&names.arch(base)))) {
                    sink.fail("C08", "C08-I3", "archive-corrupt", format!("{}: archive {} does not decompress; tree: {}", c.when, k, brief(c.tree)));
                    return false;
                }
            }
        }
    }
    // tolerated duplicate: base archive repeats (a prefix of) the active file while compressing
    if c.compress_site && files.len() >= 2 {
        let bkey = names.key(&names.arch(base));
        let n = files.len();
        if files[n - 1].0 == akey && files[n - 2].0 == bkey {
            let ids = |v: &Vec<frame::Item>| -> Vec<RecId> {
                v.iter().filter_map(|i| if let frame::Item::Whole { id, .. } = i { Some(*id) } else { None }).collect()
            };
            let a = ids(&files[n - 1].1);
            let b = ids(&files[n - 2].1);
            if a.starts_with(&b) {
                files.remove(n - 2);
            }
        }
    }
    let mut seq: Vec<RecId> = vec![];
    for (k, items) in &files {
        let m = items.len();
        for (j, it) in items.iter().enumerate() {
            match it {
                frame::Item::Whole { id, .. } => {
                    if !c.unacked.contains(id) {
                        seq.push(*id)
                    }
                }
                frame::Item::Torn { id, .. } => {
                    let ok = match id {
                        Some(id) => c.unacked.contains(id),
                        None => !c.unacked.is_empty(),
                    } && (j + 1 == m || matches!(items.get(j + 1), Some(frame::Item::Whole { .. })));
                    if !ok {
                        sink.fail("C08", "C08-I3", "torn-acknowledged", format!("{}: {} holds a torn record {:?} that is not the unacknowledged one; tree: {}", c.when, k, id, brief(c.tree)));
                        return false;
                    }
                }
                frame::Item::Junk { why, .. } => {
                    sink.fail("C08", "C08-I3", "garbage", format!("{}: {} holds garbage ({}); tree: {}", c.when, k, why, brief(c.tree)));
                    return false;
                }
            }
        }
    }
    let want: Vec<RecId> = c.stream.iter().copied().filter(|i| !c.unacked.contains(i)).collect();
    let n = seq.len();
    if n > want.len() || want[want.len() - n..] != seq[..] {
        sink.fail(
            "C08",
            "C08-I3",
            "gap",
            format!(
                "{}: reading managed names oldest to newest then the active path yields {:?}, not a gap-free suffix of the acknowledged stream {:?}; tree: {}",
                c.when,
                seq.iter().map(|i| i.to_string()).collect::<Vec<_>>(),
                want.iter().map(|i| i.to_string()).collect::<Vec<_>>(),
                brief(c.tree)
            ),
        );
        return false;
    }
    true
}

impl Model {
    /// Rebuilds the model from the (validated) on-disk state after a fault.
    /// Returns false if some archive cannot be represented (undecodable).
    /// The archive directory was removed from outside: the window is empty and
    /// bystanders below it are gone. The record stream stays as it is: what is
    /// left on disk (the active file) is still a suffix of it.
    pub fn purge_archives(&mut self) {
        self.window.clear();
        self.others.retain(|k, _| !k.starts_with("arch/"));
    }

    pub fn resync(&mut self, names: &Names) -> bool {
        let tree = names.snapshot();
        let mut ok = true;
        self.window.clear();
        self.pending = None;
        self.limbo.clear();
        let mut stream = vec![];
        let managed = self.managed();
        for i in managed.iter().rev() {
            let k = names.key(&names.arch(*i));
            if let Some(b) = tree.get(&k) {
                match if names.gz { gunzip(b) } else { Ok(b.clone()) } {
                    Ok(p) => {
                        stream.extend(frame::whole_ids(&p));
                        self.window.insert(*i, p);
                    }
                    Err(_) => ok = false,
                }
            }
        }
        let akey = names.key(&names.active);
        self.active = tree.get(&akey).cloned().unwrap_or_default();
        stream.extend(frame::whole_ids(&self.active));
        self.stream = stream;
        // everything else is a bystander from now on
        self.others.clear();
        for (k, v) in tree {
            if k == akey || managed.iter().any(|i| names.key(&names.arch(*i)) == k) {
                continue;
            }
            self.others.insert(k, v);
        }
        ok
    }
}
