//! Reloader sub-world of C15: the real `ConfigReloader::run` thread on the
//! simulated clock, polling a real YAML file that a controller edits between
//! polls (valid change, no change, touch, damage, torn prefix, broken
//! appender, deletion, directory in place, rate change / removal), with
//! logging threads running throughout. Judged afterwards against the
//! reloader reference model (Appendix F of DESIGN.md).

use std::{
    collections::BTreeMap,
    fs,
    path::PathBuf,
    sync::{Arc, Mutex},
    time::{Duration, UNIX_EPOCH},
};

use log4rs::{
    append::Append,
    config::{Appender, Config, Deserialize as L4Deserialize, Deserializers, RawConfig, Root},
};
use serde::{Deserialize, Serialize};

use super::{
    common::{self, RunCfg},
    l::{self, AppSpec, CfgSpec, Ev, FilterSpec, LoggerSpec},
    ExecOpts,
};
use crate::{clock, frame::RecId, fsutil::Scratch, kernel, rng::Rng, Outcome, Sched, Sink, Tier};

#[derive(Clone, Debug, Serialize, Deserialize, PartialEq)]
pub struct Doc {
    pub cfg: CfgSpec,
    /// refresh rate in seconds; None = no refresh_rate key (polling ends)
    pub rate_s: Option<u64>,
    /// this appender is rendered with an unknown kind (lossy loading drops it)
    pub broken_appender: Option<usize>,
    /// KiB of comment lines between the refresh rate and the appenders: the
    /// document grows beyond any small read buffer
    #[serde(default)]
    pub filler_kb: u16,
}

#[derive(Clone, Debug, Serialize, Deserialize, PartialEq)]
pub enum Step {
    /// controller sleeps this many whole seconds (it lives at xx.5 s)
    Sleep { s: u64 },
    Write { doc: usize },
    /// like Write, but the file's mtime ends up OLDER than any seen so far
    /// (a backup restored with its timestamps, a clock stepped backwards)
    WriteBackdated { doc: usize },
    Touch,
    /// text that is invalid by construction, derived from `doc`
    Damage { kind: u8, doc: usize },
    /// a prefix of the valid text of `doc`
    Torn { doc: usize, permille: u16 },
    Delete,
    DirInPlace,
    /// (symlink layout only) write `doc` into a fresh directory and re-point the link to it
    Repoint { doc: usize },
    /// two saves half a second apart: the second one lands on a whole second,
    /// i.e. at the very instant of a poll whenever the reloader polls then, and
    /// the schedule decides whether it comes before the poll's read, while the
    /// reloader is applying the first save, or after
    WriteTwice { first: usize, second: usize },
}

#[derive(Clone, Debug, Serialize, Deserialize, PartialEq)]
pub struct LogAt {
    /// seconds to sleep before logging; `racing` threads wake exactly on poll instants
    pub sleep_s: u64,
    pub target: String,
    pub level: u8,
}

#[derive(Clone, Debug, Serialize, Deserialize, PartialEq)]
pub struct Scn {
    pub docs: Vec<Doc>,
    pub steps: Vec<Step>,
    pub with_mtime: bool,
    /// the configured path is a symbolic link (ConfigMap-style layout); `Repoint`
    /// steps change the configuration by re-pointing the link atomically
    #[serde(default)]
    pub via_symlink: bool,
    /// logger threads living at xx.25 s (never concurrent with a poll)
    pub calm: Vec<Vec<LogAt>>,
    /// logger threads living at xx.0 s (may race with polls)
    pub racing: Vec<Vec<LogAt>>,
    pub sched_seed: u64,
    pub policy: kernel::Policy,
}

const LEVELS: [&str; 6] = ["off", "error", "warn", "info", "debug", "trace"];

pub fn render(doc: &Doc, version: usize) -> String {
    let mut s = String::new();
    if let Some(r) = doc.rate_s {
        s.push_str(&format!("refresh_rate: {} seconds\n", r));
    }
    for i in 0..(doc.filler_kb as usize * 1024 / 80) {
        s.push_str(&format!("# {:05} padding padding padding padding padding padding padding padding pad\n", i));
    }
    s.push_str("# ──── appenders ──── 設定 ────\n");
    s.push_str("appenders:\n");
    for (i, a) in doc.cfg.appenders.iter().enumerate() {
        s.push_str(&format!("  a{}:\n", i));
        if doc.broken_appender == Some(i) {
            s.push_str("    kind: nosuchkind\n");
        } else {
            s.push_str(&format!("    kind: cap\n    version: {}\n    idx: {}\n", version, i));
        }
        if !a.filters.is_empty() {
            s.push_str("    filters:\n");
            for f in &a.filters {
                if let FilterSpec::Threshold { level } = f {
                    s.push_str(&format!("      - kind: threshold\n        level: {}\n", LEVELS[*level as usize]));
                }
            }
        }
    }
    s.push_str("# ──── root ────\n");
    s.push_str(&format!("root:\n  level: {}\n  appenders: [{}]\n", LEVELS[doc.cfg.root_level as usize], doc.cfg.root_appenders.iter().map(|i| format!("a{}", i)).collect::<Vec<_>>().join(", ")));
    if !doc.cfg.loggers.is_empty() {
        s.push_str("loggers:\n");
        for l in &doc.cfg.loggers {
            s.push_str(&format!(
                "  \"{}\":\n    level: {}\n    additive: {}\n    appenders: [{}]\n",
                l.name,
                LEVELS[l.level as usize],
                l.additive,
                l.appenders.iter().map(|i| format!("a{}", i)).collect::<Vec<_>>().join(", ")
            ));
        }
    }
    s
}

fn damage(kind: u8, text: &str) -> String {
    match kind % 7 {
        6 => {
            // a refresh_rate that is a string but not a duration
            let body: Vec<&str> = text.lines().filter(|l| !l.starts_with("refresh_rate")).collect();
            format!("refresh_rate: 1 secnd\n{}\n", body.join("\n"))
        }
        4 => text.replacen("root:\n  level: ", "root:\n  level: x", 1), // unknown level right below a ruler comment
        5 => text.replacen("# ──── root ────\n", "# ──── root ────\nroot: [unclosed\n", 1), // syntax error next to non-ASCII text
        0 => format!("{}extra: [1, 2\n", text),                        // unterminated flow sequence
        1 => text.replacen("root:\n  level", "root:\n\tlevel", 1),      // tab indentation
        2 => format!("refresh_rate: [1, 2]\n{}", text.lines().filter(|l| !l.starts_with("refresh_rate")).collect::<Vec<_>>().join("\n")), // wrong scalar type
        _ => format!("{}bogus_top_level_key: 1\n", text),                // unknown top-level key
    }
}

/// The configuration the property prescribes for a document (lossy semantics
/// for a broken appender: it and every reference to it are dropped).
pub fn effective_cfg(doc: &Doc) -> CfgSpec {
    let mut c = doc.cfg.clone();
    if let Some(b) = doc.broken_appender {
        c.root_appenders.retain(|i| *i != b);
        for l in &mut c.loggers {
            l.appenders.retain(|i| *i != b);
        }
    }
    c
}

// ------------------------------------------------------------------ stubs

#[derive(Default)]
struct RShared {
    /// (record, version, appender idx)
    deliveries: Mutex<Vec<(RecId, u32, usize)>>,
    /// simulated instants at which a cap appender was constructed
    constructed: Mutex<Vec<i64>>,
}

#[derive(Debug)]
struct RCap {
    version: u32,
    idx: usize,
    sh: Arc<RShared>,
}

impl std::fmt::Debug for RShared {
    fn fmt(&self, f: &mut std::fmt::Formatter<'_>) -> std::fmt::Result {
        f.write_str("RShared")
    }
}

impl Append for RCap {
    fn append(&self, record: &log::Record) -> anyhow::Result<()> {
        kernel::point("cap.append");
        let s = record.args().to_string();
        let mut it = s.split('.');
        if let (Some(Ok(t)), Some(Ok(n))) = (it.next().map(|x| x.parse::<u16>()), it.next().map(|x| x.parse::<u16>())) {
            self.sh.deliveries.lock().unwrap().push((RecId { tid: t, n }, self.version, self.idx));
        }
        Ok(())
    }
    fn flush(&self) {}
}

#[derive(serde::Deserialize)]
#[serde(deny_unknown_fields)]
struct CapConfig {
    version: u32,
    idx: usize,
}

struct CapDeserializer {
    sh: Arc<RShared>,
}

impl L4Deserialize for CapDeserializer {
    type Trait = dyn Append;
    type Config = CapConfig;
    fn deserialize(&self, config: CapConfig, _: &Deserializers) -> anyhow::Result<Box<dyn Append>> {
        // construction is never a decision point and never enters the event log:
        // RawConfig iterates a randomly seeded HashMap, so its order differs per process
        self.sh.constructed.lock().unwrap().push(clock::now_ns());
        Ok(Box::new(RCap { version: config.version, idx: config.idx, sh: self.sh.clone() }))
    }
}

// -------------------------------------------------------------- generator

fn gen_doc(rng: &mut Rng, allow_none_rate: bool) -> Doc {
    let napp = rng.range(1, 3) as usize;
    let appenders = (0..napp)
        .map(|_| AppSpec { filters: if rng.chance(1, 4) { vec![FilterSpec::Threshold { level: rng.range(1, 5) as u8 }] } else { vec![] }, fail_num: 0, fail_seed: 0, reenter: None, render: None })
        .collect();
    let pick = |rng: &mut Rng| -> Vec<usize> {
        let k = rng.weighted(&[1, 5, 2]);
        (0..k).map(|_| rng.below(napp as u64) as usize).collect()
    };
    let mut names = vec!["a", "a::b", "ab", "b", "a::b::c"];
    rng.shuffle(&mut names);
    let nl = rng.weighted(&[2, 3, 2, 1]);
    let loggers = names.into_iter().take(nl).map(|n| LoggerSpec { name: n.to_string(), level: rng.range(0, 5) as u8, additive: rng.chance(2, 3), appenders: pick(rng) }).collect();
    let cfg = CfgSpec { appenders, root_level: rng.range(1, 5) as u8, root_appenders: pick(rng), loggers };
    Doc {
        cfg,
        rate_s: if allow_none_rate && rng.chance(1, 8) { None } else { Some(*rng.pick(&[1u64, 2, 3, 5, 30, 3600])) },
        broken_appender: if rng.chance(1, 8) { Some(rng.below(napp as u64) as usize) } else { None },
        filler_kb: 0,
    }
}

const TARGETS: [&str; 8] = ["a", "a::b", "a::b::c", "ab", "b", "zzz", "a::bc", ""];

pub fn generate(rng: &mut Rng, tier: Tier) -> Scn {
    let ndocs = rng.range(2, 4) as usize;
    let mut docs: Vec<Doc> = (0..ndocs).map(|i| gen_doc(rng, i > 0)).collect();
    docs[0].rate_s = Some(*rng.pick(&[1u64, 2, 3, 5]));
    let nsteps = if tier == Tier::Thorough { rng.range(2, 10) } else { rng.range(1, 6) } as usize;
    let mut steps = vec![];
    for _ in 0..nsteps {
        steps.push(Step::Sleep { s: *rng.pick(&[1u64, 1, 2, 3, 6, 31]) });
        steps.push(match rng.weighted(&[5, 2, 2, 2, 2, 1, 1, 2]) {
            7 => Step::WriteBackdated { doc: rng.below(ndocs as u64) as usize },
            0 if rng.chance(1, 4) => Step::WriteTwice { first: rng.below(ndocs as u64) as usize, second: rng.below(ndocs as u64) as usize },
            0 => Step::Write { doc: rng.below(ndocs as u64) as usize },
            1 => Step::Touch,
            2 => Step::Damage { kind: rng.below(7) as u8, doc: rng.below(ndocs as u64) as usize },
            3 => Step::Torn { doc: rng.below(ndocs as u64) as usize, permille: rng.range(1, 999) as u16 },
            4 => Step::Write { doc: 0 },
            5 => Step::Delete,
            _ => Step::DirInPlace,
        });
    }
    // always end with a repair and enough time for one more poll
    if rng.chance(2, 3) {
        steps.push(Step::Sleep { s: 2 });
        steps.push(Step::Write { doc: rng.below(ndocs as u64) as usize });
    }
    steps.push(Step::Sleep { s: *rng.pick(&[2u64, 6, 31, 3601]) });
    let mk = |rng: &mut Rng, n: usize| -> Vec<LogAt> { (0..n).map(|_| LogAt { sleep_s: *rng.pick(&[1u64, 1, 2, 3, 5, 30]), target: rng.pick(&TARGETS).to_string(), level: rng.range(1, 5) as u8 }).collect() };
    let calm = (0..rng.range(1, 2)).map(|_| { let n = rng.range(2, 8) as usize; mk(rng, n) }).collect();
    let racing = (0..rng.range(0, 2)).map(|_| { let n = rng.range(2, 8) as usize; mk(rng, n) }).collect();
    match rng.weighted(&[40, 1, 1]) {
        1 => {
            // documents larger than 64 KiB
            for d in docs.iter_mut() {
                d.filler_kb = rng.range(63, 80) as u16;
            }
        }
        2 => {
            // an outage of well over a hundred polls, then the file comes back
            for d in docs.iter_mut() {
                d.rate_s = Some(*rng.pick(&[1u64, 1, 2, 3]));
            }
            steps = vec![
                Step::Sleep { s: 1 },
                if rng.chance(1, 2) { Step::Delete } else { Step::DirInPlace },
                Step::Sleep { s: *rng.pick(&[130u64, 320, 400]) },
                Step::Write { doc: rng.below(ndocs as u64) as usize },
                Step::Sleep { s: 7 },
                Step::Write { doc: rng.below(ndocs as u64) as usize },
                Step::Sleep { s: 4 },
            ];
        }
        _ => {}
    }
    let via_symlink = rng.chance(1, 4);
    if via_symlink {
        for st in steps.iter_mut() {
            if let Step::Write { doc } = st {
                if rng.chance(1, 2) {
                    *st = Step::Repoint { doc: *doc };
                }
            }
        }
    }
    Scn { docs, steps, with_mtime: rng.chance(3, 4), via_symlink, calm, racing, sched_seed: rng.next_u64(), policy: common::gen_policy(rng) }
}

// ---------------------------------------------------------------- executor

#[derive(Clone, Debug)]
enum FileState {
    Text(String),
    /// text that is invalid by construction: the oracle does not ask log4rs' own parser about it
    Invalid(String),
    Missing,
    Dir,
}

struct Edit {
    at_ns: i64,
    /// polls of the reloader that had already read the file when the edit was made
    polls_before: usize,
    state: FileState,
}

struct Logged {
    id: RecId,
    at_ns: i64,
    target: String,
    level: u8,
    racing: bool,
}

fn set_mtime(p: &PathBuf, ns: i64) {
    if let Ok(f) = fs::File::options().write(true).open(p) {
        let _ = f.set_modified(UNIX_EPOCH + Duration::from_nanos(ns.max(0) as u64));
    }
}

pub fn execute(scn: &Scn, opts: &ExecOpts) -> Outcome {
    let mut out = Outcome::default();
    let scratch = Scratch::new("reload");
    let path = scratch.path("log4rs.yaml");
    let sink = Arc::new(Sink::default());
    let rsh = Arc::new(RShared::default());
    let sched = opts.sched.clone().unwrap_or(Sched::Prng { seed: scn.sched_seed, policy: scn.policy.clone() });
    let start = common::T0_NS;
    let k = common::begin(RunCfg { sched, trace: opts.trace, start_ns: start, tz: None, faults: vec![], crash: None, rand_script: vec![], step_cap: 100_000 });

    let text0 = render(&scn.docs[0], 0);
    if scn.via_symlink {
        let d0 = scratch.path("gen-0");
        fs::create_dir_all(&d0).unwrap();
        fs::write(d0.join("log4rs.yaml"), &text0).unwrap();
        set_mtime(&d0.join("log4rs.yaml"), start - 1_000_000_000);
        std::os::unix::fs::symlink(d0.join("log4rs.yaml"), &path).unwrap();
    } else {
        fs::write(&path, &text0).unwrap();
        set_mtime(&path, start - 1_000_000_000);
    }
    let logger = Arc::new(log4rs::Logger::new(Config::builder().build(Root::builder().build(log::LevelFilter::Off)).unwrap()));
    let _ = Appender::builder;
    let edits: Arc<Mutex<Vec<Edit>>> = Arc::new(Mutex::new(vec![]));
    let logged: Arc<Mutex<Vec<Logged>>> = Arc::new(Mutex::new(vec![]));
    let init_err: Arc<Mutex<Option<String>>> = Arc::new(Mutex::new(None));

    let mut bodies: Vec<Box<dyn FnOnce() + Send>> = vec![];
    // controller: starts the reloader, then edits at xx.5 s
    {
        let scn = scn.clone();
        let path = path.clone();
        let edits = edits.clone();
        let logger = logger.clone();
        let rsh = rsh.clone();
        let init_err = init_err.clone();
        bodies.push(Box::new(move || {
            let mut d = Deserializers::default();
            d.insert("cap", CapDeserializer { sh: rsh.clone() });
            if let Err(e) = log4rs::config::verif_init_file_with_handle(&path, d, logger.verif_handle(), scn.with_mtime) {
                *init_err.lock().unwrap() = Some(format!("{:#}", e));
                return;
            }
            kernel::sim_sleep(Duration::from_millis(500));
            let mut last_text = render(&scn.docs[0], 0);
            let mut backdated: i64 = 0;
            let mut generation: u32 = 0;
            for st in &scn.steps {
                let now = clock::now_ns();
                let write_at = |text: &str, now: i64| {
                    let is_link = fs::symlink_metadata(&path).map(|m| m.file_type().is_symlink()).unwrap_or(false);
                    if !(is_link && fs::metadata(&path).is_ok()) {
                        let _ = fs::remove_dir_all(&path);
                        let _ = fs::remove_file(&path);
                    }
                    fs::write(&path, text).unwrap(); // in place (through the link, if it is one)
                    set_mtime(&path, now);
                };
                let write = |text: &str| write_at(text, now);
                match st {
                    Step::Sleep { s } => {
                        kernel::sim_sleep(Duration::from_secs(*s));
                        continue;
                    }
                    Step::Write { doc } => {
                        let t = render(&scn.docs[*doc], *doc);
                        write(&t);
                        last_text = t.clone();
                        edits.lock().unwrap().push(Edit { at_ns: now, polls_before: kernel::current().map(|k| k.wake_count("reloader")).unwrap_or(0), state: FileState::Text(t) });
                    }
                    Step::WriteBackdated { doc } => {
                        let t = render(&scn.docs[*doc], *doc);
                        let _ = fs::remove_dir_all(&path);
                        let _ = fs::remove_file(&path);
                        fs::write(&path, &t).unwrap();
                        backdated += 1;
                        set_mtime(&path, common::T0_NS - (10 + backdated) * 3_600_000_000_000);
                        last_text = t.clone();
                        edits.lock().unwrap().push(Edit { at_ns: now, polls_before: kernel::current().map(|k| k.wake_count("reloader")).unwrap_or(0), state: FileState::Text(t) });
                    }
                    Step::Touch => {
                        if path.is_file() {
                            set_mtime(&path, now);
                        }
                        continue;
                    }
                    Step::Damage { kind, doc } => {
                        let t = damage(*kind, &render(&scn.docs[*doc], *doc));
                        write(&t);
                        last_text = t.clone();
                        edits.lock().unwrap().push(Edit { at_ns: now, polls_before: kernel::current().map(|k| k.wake_count("reloader")).unwrap_or(0), state: FileState::Invalid(t) });
                    }
                    Step::Torn { doc, permille } => {
                        let full = render(&scn.docs[*doc], *doc);
                        let mut cut = full.len() * (*permille as usize) / 1000;
                        while !full.is_char_boundary(cut) {
                            cut -= 1;
                        }
                        let t = full[..cut].to_string();
                        write(&t);
                        last_text = t.clone();
                        edits.lock().unwrap().push(Edit { at_ns: now, polls_before: kernel::current().map(|k| k.wake_count("reloader")).unwrap_or(0), state: FileState::Text(t) });
                    }
                    Step::Repoint { doc } => {
                        let t = render(&scn.docs[*doc], *doc);
                        generation += 1;
                        let d = path.parent().unwrap().join(format!("gen-{}", generation));
                        fs::create_dir_all(&d).unwrap();
                        fs::write(d.join("log4rs.yaml"), &t).unwrap();
                        set_mtime(&d.join("log4rs.yaml"), now);
                        // ln -sfn: new link under a temporary name, renamed over the old one
                        let tmp = path.with_extension("tmp-link");
                        let _ = fs::remove_file(&tmp);
                        std::os::unix::fs::symlink(d.join("log4rs.yaml"), &tmp).unwrap();
                        let _ = fs::remove_dir_all(&path);
                        fs::rename(&tmp, &path).unwrap();
                        // the previous generation goes away, as in a ConfigMap update
                        if generation >= 1 {
                            let _ = fs::remove_dir_all(path.parent().unwrap().join(format!("gen-{}", generation - 1)));
                        }
                        last_text = t.clone();
                        edits.lock().unwrap().push(Edit { at_ns: now, polls_before: kernel::current().map(|k| k.wake_count("reloader")).unwrap_or(0), state: FileState::Text(t) });
                    }
                    Step::WriteTwice { first, second } => {
                        let wakes = || kernel::current().map(|k| k.wake_count("reloader")).unwrap_or(0);
                        let t1 = render(&scn.docs[*first], *first);
                        write(&t1);
                        edits.lock().unwrap().push(Edit { at_ns: now, polls_before: wakes(), state: FileState::Text(t1) });
                        kernel::note("edit", "first of two");
                        kernel::sim_sleep(Duration::from_millis(500));
                        let now2 = clock::now_ns();
                        let t2 = render(&scn.docs[*second], *second);
                        write_at(&t2, now2);
                        last_text = t2.clone();
                        edits.lock().unwrap().push(Edit { at_ns: now2, polls_before: wakes(), state: FileState::Text(t2) });
                        kernel::note("edit", "second of two");
                        kernel::count("saves_at_a_poll_instant", 1);
                        kernel::sim_sleep(Duration::from_millis(500));
                        continue;
                    }
                    Step::Delete => {
                        let _ = fs::remove_dir_all(&path);
                        let _ = fs::remove_file(&path);
                        edits.lock().unwrap().push(Edit { at_ns: now, polls_before: kernel::current().map(|k| k.wake_count("reloader")).unwrap_or(0), state: FileState::Missing });
                    }
                    Step::DirInPlace => {
                        let _ = fs::remove_file(&path);
                        let _ = fs::create_dir_all(&path);
                        edits.lock().unwrap().push(Edit { at_ns: now, polls_before: kernel::current().map(|k| k.wake_count("reloader")).unwrap_or(0), state: FileState::Dir });
                    }
                }
                kernel::note("edit", &format!("{:?}", std::mem::discriminant(st)));
                let _ = &last_text;
            }
        }));
    }
    // logging threads
    let mut tid = 1u16;
    for (racing, groups) in [(false, &scn.calm), (true, &scn.racing)] {
        for ops in groups.iter() {
            let ops = ops.clone();
            let logger = logger.clone();
            let logged = logged.clone();
            let my = tid;
            tid += 1;
            bodies.push(Box::new(move || {
                if !racing {
                    kernel::sim_sleep(Duration::from_millis(250));
                }
                for (n, op) in ops.iter().enumerate() {
                    kernel::sim_sleep(Duration::from_secs(op.sleep_s));
                    let id = RecId { tid: my, n: n as u16 };
                    let text = format!("{}.{}", id.tid, id.n);
                    let at = clock::now_ns();
                    kernel::note("log", &format!("{} {:?} {}", id, op.target, op.level));
                    log::Log::log(&*logger, &log::Record::builder().level(l::level(op.level)).target(&op.target).args(format_args!("{}", text)).build());
                    logged.lock().unwrap().push(Logged { id, at_ns: at, target: op.target.clone(), level: op.level, racing });
                    kernel::point("op.done");
                }
            }));
        }
    }
    let panics = k.run_phase(bodies, common::WATCHDOG_S);
    for (t, msg) in panics {
        if t == usize::MAX {
            out.harness_error = Some("STALL".into());
        } else {
            sink.fail("C15", "C15-I3", "panic", format!("thread panicked: {}", msg));
        }
    }
    if let Some(a) = k.abort_reason() {
        out.harness_error = Some(format!("run aborted: {:?}", a));
    }
    let sleeps = k.sleep_log("reloader");
    let reloader_alive = k.thread_alive("reloader");
    let end_ns = clock::now_ns();
    let (summary, _) = common::end(&k);
    if let Some(e) = init_err.lock().unwrap().clone() {
        sink.fail("C15", "C15-R1", "init-failed", format!("loading the initial (valid) file failed: {}", e));
    }

    // ---------------------------------------------------------- oracle
    if !sink.any() && out.harness_error.is_none() {
        judge(scn, &sink, &sleeps, reloader_alive, start, end_ns, &edits.lock().unwrap(), &logged.lock().unwrap(), &rsh, &mut out);
    }
    let (v, probes) = sink.take();
    out.violations = v;
    for (k2, n) in probes {
        *out.probes.entry(k2).or_insert(0) += n;
    }
    out.nontrivial = out.probes.get("polls_applying_new_config").copied().unwrap_or(0) > 0 || out.probes.get("polls_keeping_last_good").copied().unwrap_or(0) > 0;
    out.sim_ns = end_ns - start;
    for (name, n) in &summary.counters {
        out.probe(name, *n);
    }
    out.summary = summary;
    let _: BTreeMap<u8, u8> = BTreeMap::new();
    out
}

#[derive(Clone, Debug, PartialEq)]
enum Good {
    Version(usize),
    /// a torn prefix that happens to parse: routing is not predicted
    Unknown,
}

#[allow(clippy::too_many_arguments)]
fn judge(scn: &Scn, sink: &Sink, sleeps: &[(i64, u64)], alive_at_end: bool, start: i64, end_ns: i64, edits: &[Edit], logged: &[Logged], rsh: &RShared, out: &mut Outcome) {
    // reference model (Appendix F)
    let mut last_text = render(&scn.docs[0], 0);
    let mut good = Good::Version(0);
    let mut rate: Option<u64> = scn.docs[0].rate_s;
    let mut alive = rate.is_some();
    // timeline of (from_ns, good) for judging records
    let mut timeline: Vec<(i64, Good)> = vec![(start, good.clone())];
    let mut applied_at: Vec<i64> = vec![start];
    // observed polls: sleep k starts at sleeps[k].0 and lasts sleeps[k].1; poll k happens at its end
    if alive && sleeps.is_empty() {
        sink.fail("C15", "C15-R1", "reloader-not-started", "the initial file has a refresh_rate but the reloader never went to sleep".into());
        return;
    }
    if !alive && !sleeps.is_empty() {
        sink.fail("C15", "C15-R4", "polls-without-rate", "the initial file has no refresh_rate but a reloader is polling".into());
        return;
    }
    let mut i = 0;
    let mut maybe_poll: Option<i64> = None;
    while alive {
        // the sleep the model expects now
        let (at, dur) = match sleeps.get(i) {
            Some(x) => *x,
            None => {
                sink.fail("C15", "C15-R3", "stopped-polling", format!("the reloader stopped polling after {} sleep(s) although the last good configuration has refresh_rate {:?}", i, rate));
                return;
            }
        };
        let want = rate.unwrap() * 1_000_000_000;
        if dur != want {
            sink.fail("C15", if i == 0 { "C15-R1" } else { "C15-R1" }, "wrong-rate", format!("sleep number {} of the reloader lasts {} ns, the refresh rate in force is {} ns", i + 1, dur, want));
            return;
        }
        let poll_at = at + dur as i64;
        if poll_at > end_ns {
            break; // the run ended before this poll happened
        }
        if poll_at == end_ns && sleeps.get(i + 1).is_none() {
            // the run ended while this poll was (possibly) under way
            maybe_poll = Some(poll_at);
            break;
        }
        // file state at the poll
        // poll number i reads the file when the reloader resumes from its sleep number i; an
        // edit made at the very same simulated instant is ordered by which thread ran first
        let state = edits.iter().filter(|e| e.polls_before <= i && e.at_ns <= poll_at).last().map(|e| e.state.clone()).unwrap_or(FileState::Text(render(&scn.docs[0], 0)));
        match state {
            FileState::Missing | FileState::Dir => {
                out.probe("polls_keeping_last_good", 1);
                out.probe("polls_file_unreadable", 1);
            }
            FileState::Invalid(t) => {
                if t == last_text {
                    out.probe("polls_unchanged", 1);
                } else {
                    last_text = t.clone();
                    out.probe("polls_keeping_last_good", 1);
                    out.probe("polls_unparsable", 1);
                }
            }
            FileState::Text(t) => {
                if t == last_text {
                    out.probe("polls_unchanged", 1);
                } else {
                    last_text = t.clone();
                    match serde_yaml::from_str::<RawConfig>(&t) {
                        Err(_) => {
                            out.probe("polls_keeping_last_good", 1);
                            out.probe("polls_unparsable", 1);
                        }
                        Ok(raw) => {
                            // which document is it?
                            let v = scn.docs.iter().enumerate().find(|(vi, d)| render(d, *vi) == t).map(|(vi, _)| vi);
                            good = match v {
                                Some(v) => Good::Version(v),
                                None => Good::Unknown,
                            };
                            if good == Good::Unknown {
                                out.probe("polls_torn_prefix_that_parses", 1);
                            }
                            timeline.push((poll_at, good.clone()));
                            applied_at.push(poll_at);
                            out.probe("polls_applying_new_config", 1);
                            rate = raw.refresh_rate().map(|d| d.as_secs());
                            if rate.is_none() {
                                alive = false;
                                out.probe("polling_ended_by_rate_removal", 1);
                            }
                        }
                    }
                }
            }
        }
        i += 1;
    }
    if !alive {
        // C15-R4: polling has ended
        if sleeps.len() > i {
            sink.fail("C15", "C15-R4", "polls-after-rate-removal", format!("the applied configuration has no refresh_rate but the reloader went to sleep again ({} sleeps, expected {})", sleeps.len(), i));
            return;
        }
        if alive_at_end {
            sink.fail("C15", "C15-R4", "reloader-still-alive", "the applied configuration has no refresh_rate but the reloader thread is still running".into());
            return;
        }
    } else if sleeps.len() > i + 1 {
        sink.fail("C15", "C15-R3", "extra-polls", format!("the reloader slept {} times, the model expects {}", sleeps.len(), i + 1));
        return;
    }
    // C15-R2: components are constructed only when a configuration is applied
    for c in rsh.constructed.lock().unwrap().iter() {
        if !applied_at.contains(c) && Some(*c) != maybe_poll {
            sink.fail("C15", "C15-R2", "rebuilt-without-change", format!("an appender was constructed at simulated time {} although no changed, parsable configuration was met then (applied at {:?})", c, applied_at));
            return;
        }
    }
    // routing of every record under the configuration in force (C15-R1/R3, C15-I1)
    let deliveries = rsh.deliveries.lock().unwrap();
    for r in logged {
        if Some(r.at_ns) == maybe_poll {
            continue;
        }
        let mine: Vec<(u32, usize)> = deliveries.iter().filter(|d| d.0 == r.id).map(|d| (d.1, d.2)).collect();
        let mut versions: Vec<u32> = mine.iter().map(|m| m.0).collect();
        versions.sort();
        versions.dedup();
        if versions.len() > 1 {
            sink.fail("C15", "C15-I1", "mixture", format!("record {} was delivered by appenders of configurations {:?}", r.id, versions));
            return;
        }
        // acceptable configurations at that instant
        let before: Vec<&(i64, Good)> = timeline.iter().filter(|(t, _)| *t < r.at_ns).collect();
        let mut acc: Vec<Good> = vec![before.last().map(|x| x.1.clone()).unwrap_or(Good::Version(0))];
        if r.racing {
            for (t, g) in timeline.iter() {
                if *t == r.at_ns {
                    acc.push(g.clone());
                }
            }
        }
        if acc.contains(&Good::Unknown) {
            continue;
        }
        let ok = acc.iter().any(|g| {
            if let Good::Version(v) = g {
                let cfg = effective_cfg(&scn.docs[*v]);
                let exp: Vec<(u32, usize)> = l::expected(&cfg, &r.target, r.level, r.id)
                    .into_iter()
                    .flatten()
                    .filter_map(|e| if let Ev::Deliver { app, .. } = e { Some((*v as u32, app)) } else { None })
                    .collect();
                let mut a = exp.clone();
                let mut b = mine.clone();
                a.sort();
                b.sort();
                a == b
            } else {
                false
            }
        });
        if !ok {
            sink.fail(
                "C15",
                "C15-R1",
                "routing-not-last-good",
                format!("record {} ({:?}, level {}) logged at {} was delivered to (version, appender) {:?}; the configuration(s) in force then: {:?}", r.id, r.target, r.level, r.at_ns, mine, acc),
            );
            return;
        }
    }
    out.probe("records_judged", logged.len() as u64);
}

pub fn size(s: &Scn) -> usize {
    s.steps.len() + s.docs.len() * 3 + s.calm.iter().map(|c| 1 + c.len()).sum::<usize>() + s.racing.iter().map(|c| 1 + c.len()).sum::<usize>()
}

pub fn shrink(s: &Scn) -> Vec<Scn> {
    let mut out = vec![];
    let mut i = 0;
    while i + 1 < s.steps.len() {
        // drop a (sleep, edit) pair
        let mut c = s.clone();
        c.steps.drain(i..i + 2);
        out.push(c);
        i += 2;
    }
    for i in 0..s.racing.len() {
        let mut c = s.clone();
        c.racing.remove(i);
        out.push(c);
    }
    for (gi, g) in s.calm.iter().enumerate() {
        if s.calm.len() > 1 {
            let mut c = s.clone();
            c.calm.remove(gi);
            out.push(c);
        }
        for oi in 0..g.len() {
            let mut c = s.clone();
            c.calm[gi].remove(oi);
            out.push(c);
        }
    }
    out
}
