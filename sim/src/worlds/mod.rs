//! Worlds: scenario types, generators, executors and oracles.

pub mod common;
pub mod f;
pub mod g;
pub mod l;
pub mod r;
pub mod r0;
pub mod reload;
pub mod rmodel;
pub mod w;

use serde::{Deserialize, Serialize};

use crate::{rng::Rng, Outcome, Sched, Tier};

#[derive(Clone, Debug, Serialize, Deserialize)]
#[serde(tag = "world")]
pub enum Scenario {
    F(f::Scn),
    R(r::Scn),
    R0(r0::Scn),
    L(l::Scn),
    Reload(reload::Scn),
    W(w::Scn),
    G(g::Scn),
}

#[derive(Clone, Debug, Default)]
pub struct ExecOpts {
    /// explicit schedule (replay / minimisation); None = the scenario's PRNG policy
    pub sched: Option<Sched>,
    pub trace: bool,
}

/// Generates the scenario of run `seed` for `profile` (a property id or a
/// sub-profile of one).
pub fn generate(profile: &str, tier: Tier, seed: u64) -> Scenario {
    let mut rng = Rng::new(seed);
    match profile {
        "C04" => Scenario::F(f::generate(&mut rng, tier)),
        "C04-encfail" => Scenario::F(f::generate_encfail(&mut rng, tier)),
        "C04-stock" => Scenario::F(f::generate_stock(&mut rng, tier)),
        "C04-scale" => Scenario::F(f::generate_scale(&mut rng, tier)),
        "C04-quota" => Scenario::F(f::generate_quota(&mut rng, tier)),
        "C05" | "C06" | "C06-fault" | "C17-fault" | "C16-fault" | "C05-fault" | "C16" | "C16-huge" | "C17" | "C08" | "C08-obst" => Scenario::R(r::generate(&mut rng, tier, profile)),
        "C05-encfail" => Scenario::R(r::generate_encfail(&mut rng, tier, "C05")),
        "C06-encfail" => Scenario::R(r::generate_encfail(&mut rng, tier, "C06")),
        "C08-streak" => Scenario::R(r::generate_streak(&mut rng, tier)),
        "C05-scale" => Scenario::R(r::generate_scale(&mut rng, tier, "C05")),
        "C06-scale" => Scenario::R(r::generate_scale(&mut rng, tier, "C06")),
        "C16-scale" => Scenario::R(r::generate_scale(&mut rng, tier, "C16")),
        "C17-scale" => Scenario::R(r::generate_scale(&mut rng, tier, "C17")),
        "C17-encfail" => Scenario::R(r::generate_encfail(&mut rng, tier, "C17")),
        "C16-encfail" => Scenario::R(r::generate_encfail(&mut rng, tier, "C16")),
        "C07-obst" => Scenario::R0(r0::generate_obst(&mut rng, tier)),
        "C07" | "C07-fault" => Scenario::R0(r0::generate(&mut rng, tier)),
        "C02" => Scenario::G(g::generate(&mut rng, tier)),
        "C10" => Scenario::W(w::generate(&mut rng, tier, false)),
        "C10-seq" => Scenario::W(w::generate_sequence(&mut rng, tier)),
        "C10-hard" => Scenario::W(w::generate(&mut rng, tier, true)),
        "C15-reload" => Scenario::Reload(reload::generate(&mut rng, tier)),
        "C03-file" => Scenario::L(l::generate_file(&mut rng, tier)),
        "C03" | "C15" => Scenario::L(l::generate(&mut rng, tier, profile)),
        other => panic!("unknown profile {}", other),
    }
}

pub fn execute(scn: &Scenario, opts: &ExecOpts) -> Outcome {
    match scn {
        Scenario::F(s) => f::execute(s, opts),
        Scenario::R(s) => r::execute(s, opts),
        Scenario::R0(s) => r0::execute(s, opts),
        Scenario::L(s) => l::execute(s, opts),
        Scenario::Reload(s) => reload::execute(s, opts),
        Scenario::W(s) => w::execute(s, opts),
        Scenario::G(s) => g::execute(s, opts),
    }
}

/// Smaller variants of a scenario, most aggressive first.
pub fn shrink(scn: &Scenario) -> Vec<Scenario> {
    match scn {
        Scenario::F(s) => f::shrink(s).into_iter().map(Scenario::F).collect(),
        Scenario::R(s) => r::shrink(s).into_iter().map(Scenario::R).collect(),
        Scenario::R0(s) => r0::shrink(s).into_iter().map(Scenario::R0).collect(),
        Scenario::L(s) => l::shrink(s).into_iter().map(Scenario::L).collect(),
        Scenario::Reload(s) => reload::shrink(s).into_iter().map(Scenario::Reload).collect(),
        Scenario::W(s) => w::shrink(s).into_iter().map(Scenario::W).collect(),
        Scenario::G(s) => g::shrink(s).into_iter().map(Scenario::G).collect(),
    }
}

pub fn size(scn: &Scenario) -> usize {
    match scn {
        Scenario::F(s) => f::size(s),
        Scenario::R(s) => r::size(s),
        Scenario::R0(s) => r0::size(s),
        Scenario::L(s) => l::size(s),
        Scenario::Reload(s) => reload::size(s),
        Scenario::W(s) => w::size(s),
        Scenario::G(s) => g::size(s),
    }
}

/// Fault-enumeration variants of a scenario, derived from its fault-free execution.
pub fn variants(profile: &str, scn: &Scenario, base: &Outcome) -> Vec<Scenario> {
    if cfg!(feature = "background_rotation") {
        // with background rotation a failing step is only printed by the rotation
        // thread: the append cannot report it, so no faults are injected in that build
        return vec![];
    }
    match (profile, scn) {
        ("C08", Scenario::R(s)) | ("C06-fault", Scenario::R(s)) | ("C17-fault", Scenario::R(s)) | ("C16-fault", Scenario::R(s)) | ("C05-fault", Scenario::R(s)) => r::fault_variants(s, &base.summary.site_hits).into_iter().map(Scenario::R).collect(),
        ("C07-fault", Scenario::R0(s)) => r0::fault_variants(s, &base.summary.site_hits).into_iter().map(Scenario::R0).collect(),
        _ => vec![],
    }
}

/// Scenarios that must run in a process of their own (process-global state
/// that can be initialised only once).
pub fn needs_fresh_process(scn: &Scenario) -> bool {
    matches!(scn, Scenario::G(_))
}
