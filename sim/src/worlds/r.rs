//! World R — the rolling file appender (C05, C06, C16, C17; fault side: C08).
//!
//! The real `RollingFileAppender` over the real `CompoundPolicy`; the real
//! trigger and roller are wrapped by transparent probes so the harness sees
//! every consultation and every roll. A byte-exact directory model is stepped
//! alongside (rmodel.rs) and compared after every append.

use std::{
    cell::Cell,
    collections::{BTreeMap, HashMap, HashSet},
    fs,
    path::Path,
    sync::{Arc, Mutex},
};

use log4rs::append::{
    rolling_file::{
        policy::compound::{
            roll::Roll,
            trigger::{onstartup::OnStartUpTrigger, size::SizeTrigger, time::TimeTrigger, Trigger},
            CompoundPolicy,
        },
        LogFile, RollingFileAppender,
    },
    Append,
};
use log4rs::encode::{self, Encode};
use serde::{Deserialize, Serialize};

use super::{
    common::{self, EncKind, RunCfg},
    rmodel::{self, Attr, InstantCtx, Model, Names, PatKind, PreState, RollerSpec},
    ExecOpts,
};
use crate::{
    calendar::{self, Expect, Unit},
    clock,
    frame::{self, RecId},
    fsutil::{self, Scratch},
    kernel::{self, CrashSpec, FaultSpec},
    rng::Rng,
    Outcome, Sched, Sink, Tier,
};

#[derive(Clone, Debug, Serialize, Deserialize, PartialEq)]
pub enum TriggerSpec {
    Size { limit: u64 },
    Time { unit: Unit, n: i64, modulate: bool, max_delay: u64 },
    OnStartUp { min_size: u64 },
    /// harness trigger: fires on the listed records
    Script { pre: bool, fire: Vec<RecId> },
}

#[derive(Clone, Debug, Serialize, Deserialize, PartialEq)]
pub enum Op {
    Append { n: u16, len: u32 },
    /// move the wall clock (negative = backward jump)
    Advance { ns: i64 },
    /// set the clock to the time trigger's scheduled instant + offset
    AdvanceToNext { offset_s: i64 },
    /// `count` appends of `len` bytes each, numbered from `n0` (scale profiles:
    /// tens of thousands of records through one appender); the directory is
    /// compared with the model once the burst is over, not after every record
    Burst { n0: u16, count: u32, len: u32 },
}

#[derive(Clone, Debug, Serialize, Deserialize, PartialEq)]
pub enum Phase {
    Work { threads: Vec<Vec<Op>> },
    Restart {
        append: bool,
        dirty: bool,
        /// reload order: the new appender is built while the old one is alive, the
        /// old one writes one more record, then it is closed
        #[serde(default)]
        overlap: bool,
    },
    /// C08: put / remove a directory where archive `base + off` should go
    Obstacle { off: u32, put: bool },
    /// a housekeeping job removes every empty directory below the archive root
    /// (and the archive root itself if it is empty)
    Sweep,
    /// the whole archive directory is removed from outside, archives and all (a
    /// clean-up job, an operator): rotation must recreate what it needs
    Purge,
}

#[derive(Clone, Debug, Serialize, Deserialize, PartialEq)]
pub struct Scn {
    pub append: bool,
    pub encoder: EncKind,
    pub trigger: TriggerSpec,
    pub roller: RollerSpec,
    /// record lengths of the pre-existing active file (tid 900); None = absent
    pub pre_active: Option<Vec<u32>>,
    /// pre-existing archives: (absolute index, record lengths) (tid 901+k)
    pub pre_archives: Vec<(u32, Vec<u32>)>,
    /// unrelated files: (relative path, length)
    pub bystanders: Vec<(String, u32)>,
    pub phases: Vec<Phase>,
    pub tz: Option<String>,
    pub start_ns: i64,
    pub rand_script: Vec<u64>,
    pub faults: Vec<FaultSpec>,
    pub crash: Option<CrashSpec>,
    /// C08: run the liveness epilogue (fault configurations only)
    pub liveness: bool,
    /// records (tid, n) whose encoder fails part-way (profile C05-encfail)
    #[serde(default)]
    pub enc_fail: Vec<(u16, u16)>,
    /// build the appender through the configuration deserializers
    /// (`kind: rolling_file` with one-shot custom trigger / roller / encoder kinds)
    #[serde(default)]
    pub via_config: bool,
    /// (via_config, append mode) leave the `append:` key out: it defaults to true
    #[serde(default)]
    pub omit_append_key: bool,
    /// records (tid, n) for which the encoder writes nothing at all (an
    /// encoder is free to produce zero bytes for a record)
    #[serde(default)]
    pub silent: Vec<(u16, u16)>,
    /// drive the appender through a real `log4rs::Logger` with the default
    /// error handler (a tap appender in between reports each result)
    #[serde(default)]
    pub via_logger: bool,
    /// the process's stdout and stderr are unusable for the whole run (every
    /// write fails with ENOSPC, as on a full disk behind a redirection)
    #[serde(default)]
    pub std_broken: bool,
    /// (> 0) everything lives below a long directory name of non-ASCII
    /// characters (variant number): paths of well over 64 bytes in which most
    /// byte offsets are not character boundaries
    #[serde(default)]
    pub long_path: u8,
    pub sched_seed: u64,
    pub policy: kernel::Policy,
}

thread_local! {
    /// (scenario thread id, record in flight)
    static CUR: Cell<Option<RecId>> = const { Cell::new(None) };
}

#[derive(Clone, Debug, Default)]
struct Inflight {
    encoded: bool,
    rolls: u32,
    roll_errs: u32,
    fired: u32,
    consults: u32,
    /// model's confirmed active size when the append was invoked... at first consult
    size_before: Option<u64>,
    /// this append performed the first consultation of the appender's lifetime
    first_consult: bool,
}

#[derive(Default)]
struct Lifetime {
    consults: u64,
    acks: u64,
    size_at_start: u64,
}

struct Shared {
    names: Names,
    model: Mutex<Model>,
    inflight: Mutex<HashMap<RecId, Inflight>>,
    acked: Mutex<HashSet<RecId>>,
    life: Mutex<Lifetime>,
    sink: Arc<Sink>,
    trigger: TriggerSpec,
    fault_mode: bool,
    in_roll: Mutex<Option<PreState>>,
    append_mode: Mutex<bool>,
    /// crash image roots (copy of the scratch tree at the crash site)
    image: Mutex<Option<(std::path::PathBuf, Option<std::path::PathBuf>)>>,
    /// model state captured with the crash image
    image_state: Mutex<Option<(PreState, Vec<RecId>)>>,
    /// byte-exact model checks are off (an archive on disk cannot be represented)
    lenient: Mutex<bool>,
    enc_fail: Vec<(u16, u16)>,
    silent: Vec<(u16, u16)>,
    /// a truncate-mode (re)open is under way: the active chunk may already be gone
    truncating: Mutex<bool>,
    /// set when a fault made the byte model unreliable; cleared by resync
    dirty: Mutex<bool>,
    c16_boundary_fires: Mutex<u64>,
    /// the time trigger's scheduled instant as last observed (i64::MIN = none)
    next_sched: Mutex<i64>,
    /// a burst is under way: per-record directory comparisons are postponed to its end
    bulk: std::sync::atomic::AtomicBool,
}


/// With the `background_rotation` build the archive shift runs on a thread
/// spawned by the roller: the directory is compared with the model only while
/// no such thread is alive (and always at the end of a phase, when the kernel
/// has waited for every spawned thread).
pub fn bg_rotation_in_flight() -> bool {
    cfg!(feature = "background_rotation") && kernel::current().map(|k| k.thread_alive("bg.rotate")).unwrap_or(false)
}

pub fn wait_for_bg_rotation() {
    if cfg!(feature = "background_rotation") {
        if let Some(k) = kernel::current() {
            let k2 = k.clone();
            k.block_here("bg.join", &move || !k2.thread_alive("bg.rotate"));
        }
    }
}

fn data_attr(fault_mode: bool) -> Attr {
    if fault_mode {
        Attr { prop: "C08", data: "C08-I3", other_prop: "C08", other: "C08-I3", sig: ":after-fault", also: None }
    } else {
        Attr { prop: "C05", data: "C05-I3", other_prop: "C07", other: "C07-I4", sig: "", also: None }
    }
}

fn attr_for(sh: &Shared) -> Attr {
    if sh.fault_mode {
        let ap = *sh.append_mode.lock().unwrap();
        Attr { prop: "C08", data: "C08-I3", other_prop: "C08", other: "C08-I3", sig: if ap { ":after-fault:append-mode" } else { ":after-fault:truncate-mode" }, also: Some(("C05", "C05-I3")) }
    } else {
        let mut a = data_attr(false);
        a.also = match &sh.trigger {
            TriggerSpec::OnStartUp { .. } => Some(("C17", "C17-I3")),
            TriggerSpec::Time { .. } => Some(("C16", "C16-I4")),
            _ => None,
        };
        a
    }
}

// ------------------------------------------------------------------ probes

#[derive(Debug)]
struct ProbeEncoder {
    inner: Box<dyn Encode>,
    sh: Arc<Shared>,
}

impl std::fmt::Debug for Shared {
    fn fmt(&self, f: &mut std::fmt::Formatter<'_>) -> std::fmt::Result {
        f.write_str("Shared")
    }
}

struct Counting<'a> {
    w: &'a mut dyn encode::Write,
    seen: Vec<u8>,
}

impl<'a> std::io::Write for Counting<'a> {
    fn write(&mut self, buf: &[u8]) -> std::io::Result<usize> {
        let n = self.w.write(buf)?;
        self.seen.extend_from_slice(&buf[..n]);
        Ok(n)
    }
    fn flush(&mut self) -> std::io::Result<()> {
        self.w.flush()
    }
}

impl<'a> encode::Write for Counting<'a> {
    fn set_style(&mut self, style: &encode::Style) -> std::io::Result<()> {
        self.w.set_style(style)
    }
}

impl Encode for ProbeEncoder {
    fn encode(&self, w: &mut dyn encode::Write, record: &log::Record) -> anyhow::Result<()> {
        let text = record.args().to_string();
        let cur = CUR.with(|c| c.get());
        if let Some(id) = cur {
            if self.sh.silent.contains(&(id.tid, id.n)) {
                // a zero-byte record: nothing to find in any file, but the policy is consulted as usual
                let mut m = self.sh.model.lock().unwrap();
                m.pending = Some((id, vec![]));
                if let Some(f) = self.sh.inflight.lock().unwrap().get_mut(&id) {
                    f.encoded = true;
                }
                self.sh.sink.probe("zero_byte_records", 1);
                return Ok(());
            }
            let mut m = self.sh.model.lock().unwrap();
            if let Some((other, _)) = &m.pending {
                if !*self.sh.dirty.lock().unwrap() {
                    self.sh.sink.fail("C05", "C05-I1", "two-in-critical-section", format!("record {} is being written while record {} is still in flight inside the appender", id, other));
                }
            }
            m.pending = Some((id, text.as_bytes().to_vec()));
            m.stream.push(id);
            if let Some(f) = self.sh.inflight.lock().unwrap().get_mut(&id) {
                f.encoded = true;
            }
            kernel::note("encode", &id.to_string());
        }
        let mut cw = Counting { w, seen: vec![] };
        let res = self.inner.encode(&mut cw, record);
        if let (Err(_), Some(id)) = (&res, cur) {
            // the encoder failed part-way: what it had written stays in the
            // appender's buffer; the record is not part of the stream
            let mut m = self.sh.model.lock().unwrap();
            if m.pending.as_ref().map(|p| p.0 == id).unwrap_or(false) {
                m.pending = None;
            }
            if m.stream.last() == Some(&id) {
                m.stream.pop();
            }
            m.limbo.extend_from_slice(&cw.seen);
            m.unacked.insert(id);
            self.sh.sink.probe("encoder_failures", 1);
        }
        res
    }
}

#[derive(Debug)]
enum RealTrigger {
    Size(SizeTrigger),
    Time(TimeTrigger, Unit, i64, bool, u64),
    OnStartUp(OnStartUpTrigger),
    Script { pre: bool, fire: Vec<RecId> },
}

#[derive(Debug)]
struct ProbeTrigger {
    inner: RealTrigger,
    sh: Arc<Shared>,
}

/// Instant in ns since the epoch, saturating (i64 ns end in the year 2262).
fn dt_ns(d: chrono::DateTime<chrono::Local>) -> i64 {
    d.timestamp().saturating_mul(1_000_000_000).saturating_add(d.timestamp_subsec_nanos() as i64)
}

/// The simulated clock never leaves [1971, 2200]: the oracle's ns arithmetic
/// and the POSIX TZ rules are meaningful there.
const CLOCK_MIN_NS: i64 = 31_536_000 * 1_000_000_000;
const CLOCK_MAX_NS: i64 = 7_258_118_400 * 1_000_000_000;

fn set_clock(ns: i64) {
    clock::set_ns(ns.clamp(CLOCK_MIN_NS, CLOCK_MAX_NS));
}

pub fn n_class(n: i64) -> &'static str {
    if n > 100_000 {
        "n-huge"
    } else {
        "n-ordinary"
    }
}

/// C16-I1 / I2 for an instant `s` scheduled from a clock read at `now`.
fn check_schedule(sh: &Shared, now: i64, s: i64, unit: Unit, n: i64, modulate: bool, max_delay: u64, when: &str) {
    if s <= now {
        sh.sink.fail("C16", "C16-I1", &format!("not-in-future:{}", n_class(n)), format!("{}: scheduled instant {} is not strictly after the clock read {} it was computed from ({} x{} modulate={})", when, s, now, unit.word(), n, modulate));
        return;
    }
    // the delay is unknown to the oracle only up to its bound: 0 <= delay < max
    // (bounds up to u64::MAX occur in the huge profile: no wrapping arithmetic on them)
    let maxd = i64::try_from(max_delay).unwrap_or(i64::MAX);
    // try to identify the delay: s - expected must be in [0, max)
    // first compute expectation assuming delay 0 for the proviso probes, then refine
    let e0 = calendar::expected_boundary(now, s, unit, n, modulate);
    match e0 {
        Expect::Exactly(b) => {
            let d = s - b;
            // an instant beyond the ns range is legitimate only when some delay in [0, max) takes
            // the boundary there (huge delay bounds); otherwise it is a wrong schedule
            let ok = if s > 9_000_000_000_000_000_000 {
                maxd > 0 && (maxd - 1).saturating_mul(1_000_000_000).saturating_add(b) > 9_000_000_000_000_000_000
            } else if maxd == 0 { d == 0 } else { d >= 0 && d < maxd.saturating_mul(1_000_000_000) && d % 1_000_000_000 == 0 };
            if !ok {
                // the offset proviso was evaluated at s (including the delay); re-evaluate at the boundary itself
                if let Expect::Exactly(b2) = calendar::expected_boundary(now, b, unit, n, modulate) {
                    sh.sink.fail(
                        "C16",
                        "C16-I2",
                        "wrong-boundary",
                        format!("{}: from clock {} the trigger scheduled {} but the {} x{} (modulate={}) boundary is {} and the random delay must lie in [0,{}) s", when, now, s, unit.word(), n, modulate, b2, maxd),
                    );
                }
            } else {
                sh.sink.probe("c16_boundary_checked_exactly", 1);
            }
        }
        Expect::OffsetChanges => sh.sink.probe("c16_offset_changes_in_between", 1),
        Expect::OutOfRange => sh.sink.probe("c16_out_of_range", 1),
    }
}

impl Trigger for ProbeTrigger {
    fn trigger(&self, file: &LogFile) -> anyhow::Result<bool> {
        let id = CUR.with(|c| c.get());
        let est = file.len_estimate();
        let disk = fs::metadata(file.path()).map(|m| m.len()).unwrap_or(0);
        let now = clock::now_ns();
        let ans = match &self.inner {
            RealTrigger::Size(t) => {
                let a = t.trigger(file)?;
                if est != disk {
                    self.sh.sink.fail("C06", "C06-I1", "size-mismatch", format!("policy was shown size {} but the active file holds {} bytes on disk (record {:?})", est, disk, id));
                }
                a
            }
            RealTrigger::OnStartUp(t) => {
                let a = t.trigger(file)?;
                let mut life = self.sh.life.lock().unwrap();
                if let TriggerSpec::OnStartUp { min_size } = &self.sh.trigger {
                    if life.consults == 0 {
                        if a != (disk >= *min_size) {
                            self.sh.sink.fail("C17", "C17-I2", "wrong-decision", format!("first record after start-up: file holds {} bytes, min_size {}, trigger answered {}", disk, min_size, a));
                        }
                    } else if a {
                        self.sh.sink.fail("C17", "C17-I1", "fired-later", format!("trigger requested a rotation at consultation {} of this appender's lifetime (record {:?})", life.consults + 1, id));
                    }
                }
                life.consults += 1;
                a
            }
            RealTrigger::Time(t, unit, n, modulate, max_delay) => {
                let s_before = dt_ns(t.verif_next_roll_time());
                let a = t.trigger(file)?;
                let s_after = dt_ns(t.verif_next_roll_time());
                *self.sh.next_sched.lock().unwrap() = s_after;
                if a != (now >= s_before) {
                    self.sh.sink.fail("C16", "C16-I3", "fire-iff-due", format!("clock {} scheduled {}: trigger answered {} (record {:?})", now, s_before, a, id));
                }
                if a {
                    check_schedule(&self.sh, now, s_after, *unit, *n, *modulate, *max_delay, "reschedule");
                    *self.sh.c16_boundary_fires.lock().unwrap() += 1;
                } else if s_after != s_before {
                    self.sh.sink.fail("C16", "C16-I3", "moved-without-firing", format!("scheduled instant moved from {} to {} without firing", s_before, s_after));
                }
                a
            }
            RealTrigger::Script { fire, .. } => id.map(|i| fire.contains(&i)).unwrap_or(false),
        };
        if let Some(id) = id {
            if let Some(f) = self.sh.inflight.lock().unwrap().get_mut(&id) {
                if matches!(self.inner, RealTrigger::OnStartUp(_)) && self.sh.life.lock().unwrap().consults == 1 {
                    f.first_consult = true;
                }
                f.consults += 1;
                if ans {
                    f.fired += 1;
                }
                if f.size_before.is_none() {
                    f.size_before = Some(disk);
                }
            }
            // the time and on-start-up triggers decide before the record is written
            // (C16-I4 / C17-I3), the size trigger right after it (C06-I2)
            let expect_pre = match &self.sh.trigger {
                TriggerSpec::Time { .. } | TriggerSpec::OnStartUp { .. } => true,
                TriggerSpec::Script { pre, .. } => *pre,
                TriggerSpec::Size { .. } => false,
            };
            let enc = self.sh.inflight.lock().unwrap().get(&id).map(|f| f.encoded).unwrap_or(false);
            if expect_pre && enc {
                let (p, i) = match &self.sh.trigger {
                    TriggerSpec::Time { .. } => ("C16", "C16-I4"),
                    TriggerSpec::OnStartUp { .. } => ("C17", "C17-I3"),
                    _ => ("C05", "C05-I3"),
                };
                self.sh.sink.fail(p, i, "consulted-after-write", format!("pre-processing trigger was consulted after record {} had been written", id));
            }
            if !expect_pre && !enc {
                let (p, i) = match &self.sh.trigger {
                    TriggerSpec::Size { .. } => ("C06", "C06-I2"),
                    _ => ("C05", "C05-I3"),
                };
                self.sh.sink.fail(p, i, "consulted-before-write", format!("post-processing trigger was consulted before record {} was written", id));
            }
        }
        kernel::note("trigger", &format!("{:?} est={} disk={} -> {}", id, est, disk, ans));
        kernel::point("trigger.done");
        Ok(ans)
    }

    fn is_pre_process(&self) -> bool {
        match &self.inner {
            RealTrigger::Size(t) => t.is_pre_process(),
            RealTrigger::Time(t, ..) => t.is_pre_process(),
            RealTrigger::OnStartUp(t) => t.is_pre_process(),
            RealTrigger::Script { pre, .. } => *pre,
        }
    }
}

#[derive(Debug)]
struct ProbeRoller {
    inner: Box<dyn Roll>,
    sh: Arc<Shared>,
}

impl Roll for ProbeRoller {
    fn roll(&self, file: &Path) -> anyhow::Result<()> {
        let id = CUR.with(|c| c.get());
        {
            let m = self.sh.model.lock().unwrap();
            *self.sh.in_roll.lock().unwrap() = Some(PreState { active: m.active.clone(), pending: m.pending.clone(), window: m.window.clone() });
        }
        kernel::note("roll.begin", &format!("{:?}", id));
        kernel::point("roll.begin");
        let res = self.inner.roll(file);
        kernel::note("roll.end", &format!("{:?} ok={}", id, res.is_ok()));
        match &res {
            Ok(()) => {
                self.sh.model.lock().unwrap().on_roll();
                *self.sh.in_roll.lock().unwrap() = None;
                if let Some(id) = id {
                    if let Some(f) = self.sh.inflight.lock().unwrap().get_mut(&id) {
                        f.rolls += 1;
                    }
                }
                if file.exists() {
                    if let TriggerSpec::OnStartUp { .. } = &self.sh.trigger {
                        self.sh.sink.fail("C17", "C17-I3", "rolled-file-remains", format!("the start-up rotation reported success but {} was not archived", self.sh.names.key(file)));
                    }
                    self.sh.sink.fail("C07", "C07-I3", "rolled-file-remains", format!("roller returned Ok but {} still exists", self.sh.names.key(file)));
                }
                self.sh.sink.probe("rolls_completed", 1);
            }
            Err(_) => {
                if let Some(id) = id {
                    if let Some(f) = self.sh.inflight.lock().unwrap().get_mut(&id) {
                        f.roll_errs += 1;
                    }
                }
                *self.sh.dirty.lock().unwrap() = true;
            }
        }
        res
    }
}

// --------------------------------------------------------------- generator

fn hist_id(slot: u16, n: u16) -> RecId {
    RecId { tid: 900 + slot, n }
}

fn hist_bytes(slot: u16, lens: &[u32]) -> Vec<u8> {
    let mut v = vec![];
    for (i, l) in lens.iter().enumerate() {
        v.extend_from_slice(frame::encode(hist_id(slot, i as u16), *l as usize).as_bytes());
    }
    v
}

pub fn enc_len_pub(tid: u16, n: u16, len: u32) -> u64 {
    enc_len(tid, n, len)
}

fn enc_len(tid: u16, n: u16, len: u32) -> u64 {
    // header: 0x02 tid,n,len 0x03
    (format!("{},{},{}", tid, n, len).len() + 2) as u64 + len as u64
}

fn gen_small_lens(rng: &mut Rng) -> Vec<u32> {
    let k = rng.weighted(&[2, 4, 2, 1]);
    (0..k).map(|_| super::f::gen_len(rng).min(1500)).collect()
}

pub fn gen_roller(rng: &mut Rng, tier: Tier, allow_special: bool) -> RollerSpec {
    if rng.chance(1, 6) {
        return RollerSpec::Delete;
    }
    let base = *rng.pick(&[0u32, 0, 1, 1, 3, 7]);
    let count = if tier == Tier::Thorough && rng.chance(1, 8) { rng.range(6, 8) as u32 } else { rng.weighted(&[1, 3, 4, 3, 2, 1]) as u32 };
    let mut kinds = vec![PatKind::Name, PatKind::Name, PatKind::Dir, PatKind::Repeated, PatKind::Env, PatKind::EnvSlash, PatKind::DirInner, PatKind::EnvTwo];
    if allow_special {
        kinds.push(PatKind::SecondMount);
        kinds.push(PatKind::DirSplit);
        if cfg!(feature = "gzip") {
            kinds.push(PatKind::Gz);
            kinds.push(PatKind::Gz);
        }
    }
    RollerSpec::Fixed { pat: *rng.pick(&kinds), base, count }
}

pub fn gen_pre(rng: &mut Rng, roller: &RollerSpec) -> (Option<Vec<u32>>, Vec<(u32, Vec<u32>)>, Vec<(String, u32)>) {
    let pre_active = if rng.chance(1, 2) { Some(gen_small_lens(rng)) } else { None };
    let mut pre_archives = vec![];
    let mut bystanders = vec![];
    if let RollerSpec::Fixed { base, count, .. } = roller {
        // some archives inside the window (with gaps), sometimes one just beyond it
        for i in *base..*base + *count {
            if rng.chance(1, 3) {
                pre_archives.push((i, gen_small_lens(rng)));
            }
        }
        if rng.chance(1, 3) {
            pre_archives.push((*base + *count, gen_small_lens(rng)));
        }
        if *base > 0 && rng.chance(1, 4) {
            pre_archives.push((*base - 1, gen_small_lens(rng)));
        }
    }
    for name in ["arch/app.log", "arch/app.x.log", "arch/app.1.log.bak", "log/app.log.1", "log/other.txt", "arch/99/readme", "arch/app.99.log"] {
        if rng.chance(1, 4) {
            bystanders.push((name.to_string(), rng.range(0, 200) as u32));
        }
    }
    (pre_active, pre_archives, bystanders)
}

fn gen_trigger(rng: &mut Rng, profile: &str) -> TriggerSpec {
    match profile {
        "C06" => TriggerSpec::Size { limit: gen_limit(rng) },
        "C06-fault" => TriggerSpec::Size { limit: *rng.pick(&[0u64, 10, 40, 100, 100, 300, 1024]) },
        "C17-fault" => TriggerSpec::OnStartUp { min_size: *rng.pick(&[0u64, 1, 1, 10, 50]) },
        "C16-fault" => TriggerSpec::Time { unit: *rng.pick(&[Unit::Second, Unit::Minute, Unit::Hour, Unit::Day]), n: *rng.pick(&[1i64, 2, 5, 7]), modulate: rng.chance(1, 2), max_delay: 0 },
        "C05-fault" => match rng.weighted(&[4, 4, 1, 2]) {
            0 => TriggerSpec::Size { limit: *rng.pick(&[0u64, 10, 40, 100, 300, 1024]) },
            1 => TriggerSpec::Script { pre: rng.chance(1, 2), fire: vec![] },
            2 => TriggerSpec::OnStartUp { min_size: *rng.pick(&[0u64, 1, 10]) },
            _ => TriggerSpec::Time { unit: *rng.pick(&[Unit::Second, Unit::Minute]), n: *rng.pick(&[1i64, 2]), modulate: false, max_delay: 0 },
        },
        "C17" => TriggerSpec::OnStartUp { min_size: *rng.pick(&[0u64, 1, 1, 2, 10, 50, 200, 1024, 1025]) },
        "C08" | "C08-obst" => match rng.weighted(&[5, 3, 1, 1]) {
            0 => TriggerSpec::Size { limit: *rng.pick(&[0u64, 10, 40, 100, 100, 300, 1024]) },
            1 => TriggerSpec::Script { pre: rng.chance(1, 2), fire: vec![] },
            2 => TriggerSpec::OnStartUp { min_size: *rng.pick(&[0u64, 1, 10]) },
            _ => TriggerSpec::Time { unit: *rng.pick(&[Unit::Second, Unit::Minute, Unit::Hour, Unit::Day]), n: *rng.pick(&[1i64, 2, 5]), modulate: rng.chance(1, 2), max_delay: 0 },
        },
        "C16" => gen_time_trigger(rng),
        "C16-huge" => TriggerSpec::Time {
            unit: *rng.pick(&Unit::ALL),
            n: *rng.pick(&[1_000_000i64, 2_147_483_647, 2_147_483_648, 1 << 40, 300_000, 100_000_000_000, i64::MAX]),
            modulate: rng.chance(1, 2),
            max_delay: *rng.pick(&[0u64, 0, 7, 10_000_000_000_000_000, 1 << 63, u64::MAX]),
        },
        _ => match rng.weighted(&[4, 2, 2, 3]) {
            0 => TriggerSpec::Size { limit: gen_limit(rng) },
            1 => gen_time_trigger(rng),
            2 => TriggerSpec::OnStartUp { min_size: *rng.pick(&[0u64, 1, 1, 10, 200]) },
            _ => TriggerSpec::Script { pre: rng.chance(1, 2), fire: vec![] },
        },
    }
}

fn gen_limit(rng: &mut Rng) -> u64 {
    match rng.weighted(&[1, 1, 5, 2, 1]) {
        0 => 0,
        1 => 1,
        2 => rng.range(10, 200),
        3 => rng.range(1023, 1025),
        _ => 4096,
    }
}

fn gen_time_trigger(rng: &mut Rng) -> TriggerSpec {
    let unit = *rng.pick(&Unit::ALL);
    let mut n = *rng.pick(&[1i64, 1, 1, 2, 3, 4, 5, 6, 7, 8, 9, 10, 11, 12, 24, 30, 31, 52, 53, 60, 61, 100, 365, 366, 400, 1000]);
    if rng.chance(1, 12) {
        // small units with multipliers that amount to whole larger units (or several of them)
        n = match unit {
            Unit::Second => *rng.pick(&[3600i64, 7200, 86400, 172800, 604800, 3601, 90000]),
            Unit::Minute => *rng.pick(&[60i64, 120, 1440, 2880, 4320, 10080, 1441]),
            Unit::Hour => *rng.pick(&[24i64, 25, 36, 48, 72, 168, 720]),
            _ => n,
        };
    }
    TriggerSpec::Time { unit, n, modulate: rng.chance(1, 2), max_delay: *rng.pick(&[0u64, 0, 0, 1, 7, 3600]) }
}

fn gen_start(rng: &mut Rng, tz: &str) -> i64 {
    let tr = calendar::transitions(tz);
    let anchor = if !tr.is_empty() && rng.chance(1, 2) {
        *rng.pick(tr)
    } else if rng.chance(2, 3) {
        *rng.pick(&calendar::ANCHORS)
    } else {
        1_700_000_000 + rng.below(60_000_000) as i64
    };
    let off = match rng.weighted(&[3, 3, 2, 2, 1]) {
        0 => rng.irange(-3, 3),
        1 => rng.irange(-3700, 3700),
        2 => rng.irange(-90_000, 90_000),
        3 => rng.irange(-8 * 86400, 8 * 86400),
        _ => 0,
    };
    (anchor + off) * 1_000_000_000 + if rng.chance(1, 3) { rng.below(1_000_000_000) as i64 } else { 0 }
}

pub fn generate_encfail(rng: &mut Rng, tier: Tier, base_profile: &str) -> Scn {
    let mut s = generate(rng, tier, base_profile);
    s.encoder = EncKind::Chunk { seed: rng.next_u64() };
    let first_heavy = base_profile == "C17" || base_profile == "C16";
    let mut tid = 0u16;
    for ph in s.phases.iter_mut() {
        match ph {
            Phase::Restart { overlap, .. } => *overlap = false,
            Phase::Work { threads } => {
                for t in threads.iter() {
                    let mut first = true;
                    for op in t {
                        if let Op::Append { n, .. } = op {
                            // the first record of a burst is the one that meets a start-up roll or a
                            // time boundary: a failure in the same call as a rotation
                            if rng.chance(1, 4) || (first && first_heavy && rng.chance(1, 2)) {
                                s.enc_fail.push((tid, *n));
                            }
                            first = false;
                        }
                    }
                    tid += 1;
                }
            }
            _ => {}
        }
    }
    s
}

/// Beyond small cases: records far larger than any internal buffer, windows
/// whose indices change their number of digits, tens of thousands of records
/// through one appender, long streaks of failing rotations.
pub fn generate_scale(rng: &mut Rng, tier: Tier, base_profile: &str) -> Scn {
    let mut s = generate(rng, tier, base_profile);
    for ph in s.phases.iter_mut() {
        if let Phase::Restart { overlap, .. } = ph {
            *overlap = false;
        }
    }
    let flavour = rng.weighted(&[5, 4, 1]);
    match flavour {
        0 => {
            // big records, preferably the first of a lifetime
            const BIG: [u32; 10] = [4090, 4097, 5000, 8193, 16385, 65500, 65537, 70000, 131072, 200000];
            for ph in s.phases.iter_mut() {
                if let Phase::Work { threads } = ph {
                    for t in threads.iter_mut() {
                        let mut first = true;
                        for op in t.iter_mut() {
                            if let Op::Append { len, .. } = op {
                                if (first && rng.chance(2, 3)) || rng.chance(1, 5) {
                                    *len = *rng.pick(&BIG) + rng.below(3) as u32;
                                }
                                first = false;
                            }
                        }
                    }
                }
            }
            if let TriggerSpec::Size { limit } = &mut s.trigger {
                if rng.chance(1, 2) {
                    *limit = *rng.pick(&[65536u64, 100_000, 300_000]);
                }
            }
        }
        1 => {
            // wide windows: indices cross 9 -> 10 (or 99 -> 100) while many rotations happen
            let pat = *rng.pick(&[PatKind::Name, PatKind::Name, PatKind::Dir, PatKind::Env]);
            let (base, count) = *rng.pick(&[(0u32, 12u32), (0, 18), (1, 12), (0, 30), (5, 20), (95, 10), (92, 17)]);
            s.roller = RollerSpec::Fixed { pat, base, count };
            s.pre_archives.retain(|(i, _)| *i < base + count + 3);
            let pre = rng.chance(1, 2);
            let nrec = rng.range(count as u64 + 2, count as u64 + 16) as u16;
            let mut fire: Vec<RecId> = (0..nrec).map(|n| RecId { tid: 0, n }).collect();
            for i in 0..3 {
                fire.push(RecId { tid: 800, n: i });
            }
            if base_profile != "C06" && base_profile != "C17" && base_profile != "C16" {
                s.trigger = TriggerSpec::Script { pre, fire };
                s.tz = None;
                s.start_ns = common::T0_NS;
            } else if let TriggerSpec::Size { limit } = &mut s.trigger {
                *limit = 10;
            }
            s.enc_fail.clear();
            s.silent.clear();
            s.phases = vec![Phase::Work { threads: vec![(0..nrec).map(|n| Op::Append { n, len: 12 + (n as u32 % 7) }).collect()] }];
        }
        _ => {
            // tens of thousands of records through one appender
            let total = *rng.pick(&[33_000u32, 66_000, 70_000]);
            let nthreads = if total > 60_000 { 2 } else { rng.range(1, 2) as u32 };
            let len = rng.range(0, 30) as u32;
            if let TriggerSpec::Size { limit } = &mut s.trigger {
                // one or two rotations on the way
                *limit = (total as u64 * (len as u64 + 10)) * *rng.pick(&[2u64, 3, 5]) / 5;
            }
            if let TriggerSpec::Script { fire, .. } = &mut s.trigger {
                fire.retain(|r| r.tid >= 800);
                fire.push(RecId { tid: 0, n: (total / nthreads / 2) as u16 });
            }
            s.enc_fail.clear();
            s.silent.clear();
            let keep_restart = s.phases.iter().find(|p| matches!(p, Phase::Restart { .. })).cloned();
            s.phases = vec![Phase::Work { threads: (0..nthreads).map(|_| vec![Op::Burst { n0: 0, count: total / nthreads, len }]).collect() }];
            if let (Some(r), true) = (keep_restart, rng.chance(1, 2)) {
                s.phases.push(r);
                s.phases.push(Phase::Work { threads: vec![vec![Op::Append { n: 0, len: 9 }, Op::Append { n: 1, len: 900 }]] });
            }
        }
    }
    s
}

/// A long streak of failing rotations (a real obstruction that stays for well
/// over a hundred records, every one of which asks for a rotation), then the
/// obstruction goes away: rotation must resume (C08's liveness clause).
pub fn generate_streak(rng: &mut Rng, tier: Tier) -> Scn {
    let mut s = generate(rng, tier, "C08-obst");
    let count = rng.range(1, 3) as u32;
    let base = *rng.pick(&[0u32, 1, 7]);
    s.roller = RollerSpec::Fixed { pat: *rng.pick(&[PatKind::Name, PatKind::Dir, PatKind::Env]), base, count };
    s.trigger = TriggerSpec::Size { limit: *rng.pick(&[0u64, 10, 40]) };
    s.tz = None;
    s.start_ns = common::T0_NS;
    s.enc_fail.clear();
    s.silent.clear();
    s.append = true;
    let streak = *rng.pick(&[130u32, 140, 200, 300]);
    // the obstruction sits at the base slot of an empty window from the start: every final move fails
    s.pre_archives.clear();
    let mut phases = vec![Phase::Obstacle { off: 0, put: true }, Phase::Work { threads: vec![vec![Op::Burst { n0: 0, count: streak, len: 20 }]] }];
    for o in 0..=count {
        phases.push(Phase::Obstacle { off: o, put: false });
    }
    phases.push(Phase::Work { threads: vec![vec![Op::Append { n: 0, len: 30 }, Op::Append { n: 1, len: 30 }]] });
    s.phases = phases;
    s.liveness = true;
    s
}

pub fn generate(rng: &mut Rng, tier: Tier, profile: &str) -> Scn {
    let trigger = gen_trigger(rng, profile);
    let roller = gen_roller(rng, tier, true);
    let (pre_active, pre_archives, bystanders) = gen_pre(rng, &roller);
    let is_time = matches!(trigger, TriggerSpec::Time { .. });
    let _ = profile;
    let tz = if is_time { Some(rng.pick(&calendar::ZONES).to_string()) } else { None };
    let mut start_ns = match &tz {
        Some(z) => gen_start(rng, z),
        None => common::T0_NS,
    };
    if let TriggerSpec::Time { unit, .. } = &trigger {
        // Year and month arithmetic goes wrong on days the target year or month does not have:
        // half of those schedules start on 29 February or on a 29th/30th/31st. The choice is
        // derived from the instant drawn above, so that the rest of the scenario is unchanged.
        let mut r2 = Rng::new(start_ns as u64 ^ 0x8a5c_d789_635d_2dff);
        let days: &[i64] = match unit {
            Unit::Year => &[1709208000, 1582977600], // 2024-02-29T12Z, 2020-02-29T12Z
            // 31 Jan, 31 Mar, 31 May, 31 Aug, 31 Oct, 31 Dec, 30 Jan 2024; 29 Jan 2023
            Unit::Month => &[1706702400, 1711886400, 1717156800, 1725105600, 1730376000, 1735646400, 1706616000, 1674993600],
            _ => &[],
        };
        if !days.is_empty() && r2.chance(1, 2) {
            start_ns = (*r2.pick(days) + r2.irange(-36_000, 36_000)) * 1_000_000_000;
        }
    }
    let append = rng.chance(3, 4);
    let nthreads_max = if matches!(trigger, TriggerSpec::OnStartUp { .. }) { 4 } else { 3 };
    let mut phases = vec![];
    if rng.chance(1, 6) {
        // right after the first start-up, before the first record
        phases.push(Phase::Sweep);
    }
    let nwork = rng.weighted(&[5, 3, 2]) + 1;
    // sometimes the archive directory is purged between lifetimes or between bursts of records
    let purging = rng.chance(1, 6) && !matches!(roller, RollerSpec::Fixed { pat: PatKind::SecondMount | PatKind::DirSplit, .. });
    let mut tid_next = 0u16;
    let mut fire = vec![];
    let mut silent: Vec<(u16, u16)> = vec![];
    // approximate size model to aim records at the limit (exact for one thread)
    let limit = if let TriggerSpec::Size { limit } = &trigger { Some(*limit) } else { None };
    let mut cur: u64 = if append { pre_active.as_ref().map(|l| hist_bytes(0, l).len() as u64).unwrap_or(0) } else { 0 };
    for w in 0..nwork {
        if w > 0 && purging && rng.chance(1, 2) {
            // the same appender goes on after the purge
            phases.push(Phase::Purge);
        } else if w > 0 {
            let ap = if rng.chance(4, 5) { append } else { !append };
            let dirty = rng.chance(1, 5);
            phases.push(Phase::Restart { append: ap, dirty, overlap: ap && append && !dirty && rng.chance(1, 3) });
            if rng.chance(1, 4) {
                phases.push(Phase::Sweep);
            }
            if purging && rng.chance(1, 3) {
                phases.push(Phase::Purge);
            }
            if !ap {
                cur = 0;
            }
        }
        let nthreads = (rng.weighted(&[4, 3, 2, 1]) + 1).min(nthreads_max);
        let mut threads = vec![];
        for _ in 0..nthreads {
            let tid = tid_next;
            tid_next += 1;
            let nops = if tier == Tier::Thorough && rng.chance(1, 6) { rng.range(4, 12) } else { rng.weighted(&[1, 4, 4, 3, 1]) as u64 } as usize;
            let mut ops = vec![];
            let mut n = 0u16;
            for _ in 0..nops {
                if is_time && rng.chance(2, 5) {
                    ops.push(gen_advance(rng, &trigger));
                }
                let mut len = if limit.map(|l| l < 300).unwrap_or(false) { rng.range(0, 40) as u32 } else { super::f::gen_len(rng) };
                if let Some(l) = limit {
                    // aim at limit-1, limit, limit+1 from the current (approximate) size
                    if rng.chance(1, 2) && l >= cur {
                        let target = (l as i64 + rng.irange(-1, 1)).max(0) as u64;
                        let mut guess = target.saturating_sub(cur) as u32;
                        for _ in 0..4 {
                            let e = enc_len(tid, n, guess);
                            let want = target.saturating_sub(cur);
                            if e > want && guess > 0 {
                                guess = guess.saturating_sub((e - want) as u32);
                            } else if e < want {
                                guess += (want - e) as u32;
                            }
                        }
                        len = guess;
                    }
                    cur += enc_len(tid, n, len);
                    if cur > l {
                        cur = 0;
                    }
                }
                if let TriggerSpec::Script { .. } = &trigger {
                    if rng.chance(1, 3) {
                        fire.push(RecId { tid, n });
                    }
                }
                if rng.chance(1, 12) && (profile == "C06" || profile == "C05") {
                    silent.push((tid, n));
                }
                ops.push(Op::Append { n, len });
                n += 1;
            }
            threads.push(ops);
        }
        phases.push(Phase::Work { threads });
    }
    // the liveness epilogue's records (tid 800) always satisfy a scripted trigger
    for i in 0..3 {
        fire.push(RecId { tid: 800, n: i });
    }
    let trigger = match trigger {
        TriggerSpec::Script { pre, .. } => TriggerSpec::Script { pre, fire },
        t => t,
    };
    let mut phases = phases;
    let mut append = append;
    let mut roller = roller;
    if profile.starts_with("C08") || profile.ends_with("-fault") {
        // the fault-free base execution and its fault variants must be the same history
        for ph in phases.iter_mut() {
            if let Phase::Restart { overlap, .. } = ph {
                *overlap = false;
            }
        }
        if rng.chance(1, 3) {
            append = false;
        }
        // prefer windows with something to shift
        if let RollerSpec::Fixed { pat, base, count } = &roller {
            if *count < 2 && rng.chance(2, 3) {
                roller = RollerSpec::Fixed { pat: *pat, base: *base, count: rng.range(2, 4) as u32 };
            }
        }
        if profile == "C08-obst" {
            if let RollerSpec::Fixed { count, .. } = &roller {
                if *count >= 1 {
                    // anywhere in the window: the base slot makes the final move fail, the others a shift
                    let off = rng.range(0, (*count - 1) as u64) as u32;
                    let at = rng.below(phases.len() as u64 + 1) as usize;
                    phases.insert(at.min(phases.len().saturating_sub(1)), Phase::Obstacle { off, put: true });
                    if rng.chance(1, 2) {
                        // the obstruction may have been carried upwards by a shift: clear every slot
                        for o in 0..=*count {
                            phases.push(Phase::Obstacle { off: o, put: false });
                        }
                        phases.push(Phase::Work { threads: vec![vec![Op::Append { n: 0, len: 30 }, Op::Append { n: 1, len: 300 }]] });
                    }
                }
            }
        }
    }
    let mut s = Scn {
        append,
        encoder: if rng.chance(1, 2) { EncKind::Chunk { seed: rng.next_u64() } } else { EncKind::Pattern },
        trigger,
        roller,
        pre_active,
        pre_archives,
        bystanders,
        phases,
        tz,
        start_ns,
        rand_script: (0..4).map(|_| rng.next_u64() >> 16).collect(),
        faults: vec![],
        crash: None,
        liveness: profile == "C08-obst",
        enc_fail: vec![],
        via_config: rng.chance(1, 4),
        omit_append_key: rng.chance(1, 2),
        silent,
        via_logger: false,
        std_broken: false,
        long_path: 0,
        sched_seed: rng.next_u64(),
        policy: common::gen_policy(rng),
    };
    if profile.starts_with("C08") {
        s.via_logger = rng.chance(1, 3);
        s.std_broken = rng.chance(1, 3);
        if rng.chance(1, 4) {
            s.long_path = rng.range(1, LONG_DIRS.len() as u64) as u8;
        }
    }
    s
}

fn gen_advance(rng: &mut Rng, trigger: &TriggerSpec) -> Op {
    let (unit, n) = match trigger {
        TriggerSpec::Time { unit, n, .. } => (*unit, *n),
        _ => (Unit::Second, 1),
    };
    match rng.weighted(&[4, 3, 2, 1, 1]) {
        0 => Op::AdvanceToNext { offset_s: *rng.pick(&[-1i64, 0, 0, 1, 1, 2]) },
        1 => {
            let s = *rng.pick(&[1i64, 59, 60, 3599, 3600, 3601, 86399, 86400, 7 * 86400, 31 * 86400, 366 * 86400]);
            Op::Advance { ns: s * 1_000_000_000 }
        }
        2 => {
            let u = unit.approx_secs().saturating_mul(n.min(1000));
            Op::Advance { ns: (u + rng.irange(-2, 2)).max(1).saturating_mul(1_000_000_000) }
        }
        3 => Op::Advance { ns: -(*rng.pick(&[1i64, 60, 3600, 86400, 40 * 86400])) * 1_000_000_000 },
        _ => Op::Advance { ns: rng.range(1, 2_000_000_000) as i64 },
    }
}

// ---------------------------------------------------------------- executor

struct Live {
    appender: Option<Arc<Box<dyn Append>>>,
}

fn build_appender(scn: &Scn, sh: &Arc<Shared>, append: bool) -> anyhow::Result<Box<dyn Append>> {
    let inner = match &scn.trigger {
        TriggerSpec::Size { limit } => RealTrigger::Size(SizeTrigger::new(*limit)),
        TriggerSpec::OnStartUp { min_size } => RealTrigger::OnStartUp(OnStartUpTrigger::new(*min_size)),
        TriggerSpec::Script { pre, fire } => RealTrigger::Script { pre: *pre, fire: fire.clone() },
        TriggerSpec::Time { unit, n, modulate, max_delay } => {
            let yaml = format!("interval: {} {}\nmodulate: {}\nmax_random_delay: {}\n", n, unit.word(), modulate, max_delay);
            let cfg: log4rs::append::rolling_file::policy::compound::trigger::time::TimeTriggerConfig = serde_yaml::from_str(&yaml)?;
            let now = clock::now_ns();
            let t = TimeTrigger::new(cfg);
            let s = dt_ns(t.verif_next_roll_time());
            *sh.next_sched.lock().unwrap() = s;
            check_schedule(sh, now, s, *unit, *n, *modulate, *max_delay, "construction");
            RealTrigger::Time(t, *unit, *n, *modulate, *max_delay)
        }
    };
    {
        let at_start = if append { sh.model.lock().unwrap().active.len() as u64 } else { 0 };
        *sh.life.lock().unwrap() = Lifetime { consults: 0, acks: 0, size_at_start: at_start };
    }
    let trigger: Box<dyn Trigger> = Box::new(ProbeTrigger { inner, sh: sh.clone() });
    let roller: Box<dyn Roll> = Box::new(ProbeRoller { inner: rmodel::build_roller(&scn.roller, &sh.names)?, sh: sh.clone() });
    let policy_parts: PolicyParts = (std::cell::Cell::new(Some(trigger)), roller);
    let inner_enc: Box<dyn Encode> = match &scn.encoder {
        EncKind::Chunk { seed } if !scn.enc_fail.is_empty() => Box::new(common::ChunkEncoder { seed: *seed, fail: scn.enc_fail.clone(), quiet: false }),
        e => common::make_encoder(e),
    };
    let enc = ProbeEncoder { inner: inner_enc, sh: sh.clone() };
    if scn.via_config {
        // through the configuration machinery: the rolling_file appender and compound policy
        // deserializers assemble the same probes (handed out by one-shot custom kinds)
        return build_via_config(scn, sh, append, policy_parts.0.take().unwrap(), policy_parts.1, Box::new(enc));
    }
    let policy = CompoundPolicy::new(policy_parts.0.take().unwrap(), policy_parts.1);
    let a = RollingFileAppender::builder().append(append).encoder(Box::new(enc)).build(&sh.names.active, Box::new(policy))?;
    wrap_logger(scn, sh, Box::new(a))
}

thread_local! {
    /// result of the tapped appender's last call on this thread
    static TAP: std::cell::RefCell<Option<Result<(), String>>> = const { std::cell::RefCell::new(None) };
}

/// Sits between the real `Logger` and the real appender: passes everything
/// through and leaves a copy of the result for the calling harness thread.
#[derive(Debug)]
struct Tap(Box<dyn Append>);

impl Append for Tap {
    fn append(&self, record: &log::Record) -> anyhow::Result<()> {
        let r = self.0.append(record);
        TAP.with(|t| *t.borrow_mut() = Some(r.as_ref().map(|_| ()).map_err(|e| format!("{:#}", e))));
        r
    }
    fn flush(&self) {
        self.0.flush()
    }
}

/// An `Append` facade over a whole `log4rs::Logger` (root logger, one
/// appender, default error handler): what an application's `info!()` reaches.
struct LoggerDriven(log4rs::Logger);

impl std::fmt::Debug for LoggerDriven {
    fn fmt(&self, f: &mut std::fmt::Formatter<'_>) -> std::fmt::Result {
        f.write_str("LoggerDriven")
    }
}

impl Append for LoggerDriven {
    fn append(&self, record: &log::Record) -> anyhow::Result<()> {
        TAP.with(|t| *t.borrow_mut() = None);
        log::Log::log(&self.0, record);
        match TAP.with(|t| t.borrow_mut().take()) {
            Some(Ok(())) => Ok(()),
            Some(Err(e)) => Err(anyhow::anyhow!(e)),
            None => Err(anyhow::anyhow!("the logger did not hand the record to its appender")),
        }
    }
    fn flush(&self) {
        log::Log::flush(&self.0)
    }
}

fn wrap_logger(scn: &Scn, sh: &Arc<Shared>, a: Box<dyn Append>) -> anyhow::Result<Box<dyn Append>> {
    if !scn.via_logger {
        return Ok(a);
    }
    let cfg = log4rs::Config::builder()
        .appender(log4rs::config::Appender::builder().build("a", Box::new(Tap(a))))
        .build(log4rs::config::Root::builder().appender("a").build(log::LevelFilter::Trace))?;
    sh.sink.probe("appenders_driven_through_logger", 1);
    Ok(Box::new(LoggerDriven(log4rs::Logger::new(cfg))))
}

type PolicyParts = (std::cell::Cell<Option<Box<dyn Trigger>>>, Box<dyn Roll>);

#[derive(serde::Deserialize)]
#[serde(deny_unknown_fields)]
struct NoConfig {}

struct Slot<T: ?Sized>(Mutex<Option<Box<T>>>);

impl log4rs::config::Deserialize for Slot<dyn Trigger> {
    type Trait = dyn Trigger;
    type Config = NoConfig;
    fn deserialize(&self, _: NoConfig, _: &log4rs::config::Deserializers) -> anyhow::Result<Box<dyn Trigger>> {
        self.0.lock().unwrap().take().ok_or_else(|| anyhow::anyhow!("trigger slot already used"))
    }
}

impl log4rs::config::Deserialize for Slot<dyn Roll> {
    type Trait = dyn Roll;
    type Config = NoConfig;
    fn deserialize(&self, _: NoConfig, _: &log4rs::config::Deserializers) -> anyhow::Result<Box<dyn Roll>> {
        self.0.lock().unwrap().take().ok_or_else(|| anyhow::anyhow!("roller slot already used"))
    }
}

impl log4rs::config::Deserialize for Slot<dyn Encode> {
    type Trait = dyn Encode;
    type Config = NoConfig;
    fn deserialize(&self, _: NoConfig, _: &log4rs::config::Deserializers) -> anyhow::Result<Box<dyn Encode>> {
        self.0.lock().unwrap().take().ok_or_else(|| anyhow::anyhow!("encoder slot already used"))
    }
}

fn build_via_config(scn: &Scn, sh: &Arc<Shared>, append: bool, trigger: Box<dyn Trigger>, roller: Box<dyn Roll>, enc: Box<dyn Encode>) -> anyhow::Result<Box<dyn Append>> {
    let mut d = log4rs::config::Deserializers::default();
    d.insert("ptrigger", Slot::<dyn Trigger>(Mutex::new(Some(trigger))));
    d.insert("proller", Slot::<dyn Roll>(Mutex::new(Some(roller))));
    d.insert("pencoder", Slot::<dyn Encode>(Mutex::new(Some(enc))));
    let mut yaml = format!("path: \"{}\"\n", sh.names.active.display());
    // `append` defaults to true: the key is left out when the scenario says so
    if !(append && scn.omit_append_key) {
        yaml.push_str(&format!("append: {}\n", append));
    }
    yaml.push_str("encoder:\n  kind: pencoder\npolicy:\n  kind: compound\n  trigger:\n    kind: ptrigger\n  roller:\n    kind: proller\n");
    let value: serde_value::Value = serde_yaml::from_str(&yaml)?;
    sh.sink.probe("appenders_built_through_config", 1);
    let a = d.deserialize::<dyn Append>("rolling_file", value)?;
    wrap_logger(scn, sh, a)
}

fn do_append(sh: &Arc<Shared>, appender: &dyn Append, id: RecId, len: u32, others_inflight: &Mutex<u32>) {
    let text = frame::encode(id, len as usize);
    CUR.with(|c| c.set(Some(id)));
    let size_model_before;
    {
        sh.inflight.lock().unwrap().insert(id, Inflight::default());
        size_model_before = sh.model.lock().unwrap().active.len() as u64;
        let _ = size_model_before;
        *others_inflight.lock().unwrap() += 1;
    }
    kernel::note("invoke", &format!("{} len={}", id, len));
    let fired_before = kernel::current().map(|k| k.faults_fired_count()).unwrap_or(0);
    let res = appender.append(&log::Record::builder().level(log::Level::Info).target("sim").args(format_args!("{}", text)).build());
    let fired_after = kernel::current().map(|k| k.faults_fired_count()).unwrap_or(0);
    CUR.with(|c| c.set(None));
    let others = {
        let mut o = others_inflight.lock().unwrap();
        *o -= 1;
        *o
    };
    let fl = sh.inflight.lock().unwrap().remove(&id).unwrap_or_default();
    let fault_here = fired_after > fired_before;
    match res {
        Ok(()) => {
            kernel::note("return", &format!("{} ok", id));
            sh.acked.lock().unwrap().insert(id);
            let mut m = sh.model.lock().unwrap();
            // confirm the record
            let mut placed = fl.encoded;
            if let Some((pid, bytes)) = m.pending.clone() {
                if pid == id {
                    // the flush wrote out leftovers of earlier failed encodes first
                    let limbo = std::mem::take(&mut m.limbo);
                    m.active.extend_from_slice(&limbo);
                    m.active.extend_from_slice(&bytes);
                    m.pending = None;
                }
            }
            if !fl.encoded {
                placed = false;
            }
            if !placed {
                sh.sink.fail("C05", "C05-I1", "ack-without-write", format!("append of {} returned Ok but the encoder was never asked to write it", id));
            }
            if fault_here {
                sh.sink.fail("C08", "C08-I1", "error-swallowed", format!("a filesystem step failed during the append of {} but the append returned Ok", id));
            }
            // policy contract: one roll per firing
            if fl.rolls + fl.roll_errs != fl.fired {
                sh.sink.fail("C05", "C05-I3", "fire-roll-mismatch", format!("append of {}: trigger fired {} time(s) but the roller ran {} time(s)", id, fl.fired, fl.rolls + fl.roll_errs));
                if sh.fault_mode {
                    // with an obstruction or a fault in the history this is C08's business too: the
                    // appender has stopped attempting the rotation instead of reporting its failure
                    sh.sink.fail("C08", "C08-I1", "rotation-not-attempted", format!("append of {} returned Ok although its trigger asked for a rotation and the roller was not called ({} fired, {} attempted)", id, fl.fired, fl.rolls + fl.roll_errs));
                }
            }
            let dirty = *sh.dirty.lock().unwrap();
            // trigger-specific, model-based expectations
            match &sh.trigger {
                TriggerSpec::Size { limit } if !dirty => {
                    // size after this append, from the model (bytes confirmed so far in the file this record went to)
                    let size_after = if fl.rolls > 0 { None } else { Some(m.active.len() as u64) };
                    match size_after {
                        Some(s) if s > *limit => {
                            sh.sink.fail("C06", "C06-I2", "roll-deferred", format!("after the append of {} the active file holds {} > {} bytes but no rotation happened", id, s, limit));
                        }
                        None => {
                            // rolled: the archived chunk must have exceeded the limit
                            let rolled_len = match &m.roller {
                                RollerSpec::Fixed { base, count, .. } if *count > 0 => m.window.get(base).map(|c| c.len() as u64),
                                _ => None,
                            };
                            if let Some(l) = rolled_len {
                                if l <= *limit {
                                    sh.sink.fail("C06", "C06-I2", "roll-early", format!("the append of {} caused a rotation although the file held only {} <= {} bytes", id, l, limit));
                                }
                            } else if let Some(sb) = fl.size_before {
                                // delete roller / count 0: use the size shown on disk at consultation
                                if sb <= *limit {
                                    sh.sink.fail("C06", "C06-I2", "roll-early", format!("the append of {} caused a rotation although the file held only {} <= {} bytes", id, sb, limit));
                                }
                            }
                        }
                        _ => {}
                    }
                    if others == 0 {
                        let on_disk = fs::metadata(&sh.names.active).map(|x| x.len()).unwrap_or(0);
                        if on_disk > *limit {
                            sh.sink.fail("C06", "C06-I3", "over-limit", format!("after the append of {} the active file holds {} > {} bytes and was not rotated", id, on_disk, limit));
                        }
                    }
                }
                TriggerSpec::OnStartUp { min_size } if !dirty => {
                    let mut life = sh.life.lock().unwrap();
                    // a rotation may be requested only by the append that made the first
                    // consultation of this lifetime (whether or not that rotation succeeded)
                    let want = if fl.first_consult && life.size_at_start >= *min_size { 1 } else { 0 };
                    if fl.rolls + fl.roll_errs != want {
                        sh.sink.fail(
                            "C17",
                            if fl.first_consult { "C17-I2" } else { "C17-I1" },
                            "roll-count",
                            format!("append of {} (acknowledged number {} of this appender's lifetime, first consultation: {}; file held {} bytes at start-up, min_size {}) caused {} rotation request(s), expected {}", id, life.acks + 1, fl.first_consult, life.size_at_start, min_size, fl.rolls + fl.roll_errs, want),
                        );
                    }
                    life.acks += 1;
                }
                TriggerSpec::Time { .. } if !dirty => {
                    if fl.consults == 0 {
                        sh.sink.fail("C16", "C16-I3", "not-consulted", format!("append of {} returned without consulting the time trigger", id));
                    }
                }
                TriggerSpec::Script { fire, .. } if !dirty => {
                    let want = fire.contains(&id) as u32;
                    if fl.rolls != want {
                        sh.sink.fail("C05", "C05-I3", "script-roll-mismatch", format!("scripted trigger: append of {} should cause {} rotation(s), saw {}", id, want, fl.rolls));
                    }
                }
                _ => {}
            }
            if bg_rotation_in_flight() {
                sh.sink.probe("checks_deferred_background_rotation", 1);
            } else if sh.bulk.load(std::sync::atomic::Ordering::Relaxed) && fl.rolls == 0 {
                // inside a burst: compared when the burst is over (and after every rotation)
            } else if !dirty {
                let at = attr_for(sh);
                if *sh.lenient.lock().unwrap() {
                    if others == 0 {
                        lenient_check(sh, &m, &format!("after append of {}", id));
                    }
                } else if m.check(&sh.names, &sh.sink, at, others > 0, &format!("after append of {}", id)) && others == 0 {
                    m.check_stream(&sh.names, &sh.sink, at.prop, if sh.fault_mode { "C08-I3" } else { "C05-I2" }, &format!("after append of {}", id));
                }
            }
        }
        Err(e) => {
            kernel::note("return", &format!("{} err", id));
            if sh.enc_fail.contains(&(id.tid, id.n)) {
                // injected encoder failure: nothing acknowledged may be damaged
                if !bg_rotation_in_flight() && !*sh.dirty.lock().unwrap() {
                    let m = sh.model.lock().unwrap();
                    m.check(&sh.names, &sh.sink, attr_for(sh), others > 0, &format!("after the failed append of {} (encoder error)", id));
                }
                return;
            }
            if !sh.fault_mode {
                sh.sink.fail("C05", "C05-E0", "append-failed", format!("append of {} failed although nothing was injected: {:#}", id, e));
                return;
            }
            sh.sink.probe("append_err_after_fault", 1);
            // C08-I2 / I3 at the failure instant, on the live tree
            let mut unacked: HashSet<RecId> = sh.inflight.lock().unwrap().keys().copied().collect();
            unacked.insert(id);
            after_fault(sh, &unacked, &format!("after the failed append of {} ({:#})", id, e));
        }
    }
}

/// Stream-only check used when an archive on disk cannot be represented by
/// the byte model (a torn compressed file left behind by a crash).
fn lenient_check(sh: &Shared, m: &Model, when: &str) {
    let tree = sh.names.snapshot();
    let pre = PreState::default();
    let unacked = HashSet::new();
    let ctx = InstantCtx { names: &sh.names, roller: &m.roller, tree: &tree, pre: &pre, in_roll: false, unacked: &unacked, compress_site: true, tolerate_corrupt: true, stream: &m.stream, when };
    rmodel::check_instant(&ctx, &sh.sink);
}

/// Validates the on-disk state right after a failed append (C08-I2/I3) and
/// re-synchronises the byte model from it.
fn after_fault(sh: &Arc<Shared>, unacked: &HashSet<RecId>, when: &str) {
    let mut m = sh.model.lock().unwrap();
    let pre_roll = sh.in_roll.lock().unwrap().take();
    let in_roll = pre_roll.is_some();
    let pre = pre_roll.unwrap_or_else(|| PreState { active: m.active.clone(), pending: m.pending.clone(), window: m.window.clone() });
    let tree = sh.names.snapshot();
    let site = kernel::current().and_then(|k| k.last_fault_site()).unwrap_or_default();
    let ctx = InstantCtx {
        names: &sh.names,
        roller: &m.roller.clone(),
        tree: &tree,
        pre: &pre,
        in_roll,
        unacked,
        compress_site: site.starts_with("compress."),
        tolerate_corrupt: *sh.lenient.lock().unwrap(),
        stream: &m.stream.clone(),
        when,
    };
    if rmodel::check_instant(&ctx, &sh.sink) {
        let exact = m.resync(&sh.names);
        *sh.lenient.lock().unwrap() = !exact;
        *sh.dirty.lock().unwrap() = false;
        sh.sink.probe("resynced_after_fault", 1);
    }
}

pub fn setup_tree(scn: &Scn, names: &Names) -> Model {
    let mut model = Model { roller: scn.roller.clone(), active: vec![], pending: None, limbo: vec![], unacked: HashSet::new(), window: BTreeMap::new(), others: BTreeMap::new(), stream: vec![], rolls_ok: 0 };
    fs::create_dir_all(names.root.join("log")).unwrap();
    fs::create_dir_all(names.root.join("arch")).unwrap();
    let managed = model.managed();
    if let (Some(split), RollerSpec::Fixed { base, count, .. }) = (&names.split_root, &scn.roller) {
        for i in *base..=*base + *count {
            if i % 2 == 1 {
                let real = split.join(format!("d{}", i));
                fs::create_dir_all(&real).unwrap();
                let _ = std::os::unix::fs::symlink(&real, names.root.join("arch").join(i.to_string()));
            }
        }
    }
    // oldest first for the stream: highest index first
    let mut archs: Vec<(usize, &(u32, Vec<u32>))> = scn.pre_archives.iter().enumerate().collect();
    archs.sort_by_key(|(_, (i, _))| std::cmp::Reverse(*i));
    for (k, (idx, lens)) in archs {
        if matches!(scn.roller, RollerSpec::Delete) {
            continue;
        }
        let bytes = hist_bytes(1 + k as u16, lens);
        let p = names.arch(*idx);
        rmodel::write_archive(&p, &bytes, names.gz);
        if managed.contains(idx) {
            for (i, _) in lens.iter().enumerate() {
                model.stream.push(hist_id(1 + k as u16, i as u16));
            }
            model.window.insert(*idx, bytes);
        } else {
            let on_disk = fs::read(&p).unwrap();
            model.others.insert(names.key(&p), on_disk);
        }
    }
    for (rel, len) in &scn.bystanders {
        let p = names.root.join(rel);
        // never shadow a managed name or the active file
        if managed.iter().any(|i| names.arch(*i) == p) || p == names.active || model.others.contains_key(&names.key(&p)) {
            continue;
        }
        if let Some(d) = p.parent() {
            fs::create_dir_all(d).unwrap();
        }
        let bytes: Vec<u8> = (0..*len).map(|i| b'A' + (i % 23) as u8).collect();
        fs::write(&p, &bytes).unwrap();
        model.others.insert(names.key(&p), bytes);
    }
    if let Some(lens) = &scn.pre_active {
        let bytes = hist_bytes(0, lens);
        fs::write(&names.active, &bytes).unwrap();
        for (i, _) in lens.iter().enumerate() {
            model.stream.push(hist_id(0, i as u16));
        }
        model.active = bytes;
    }
    model
}

/// Long directory names in 2- and 3-byte scripts, with ASCII prefixes of
/// different lengths so that every alignment of a fixed byte offset occurs.
pub const LONG_DIRS: [&str; 6] = [
    "журнал-приложения-данные-архив-службы-платежей-и-отчётов",
    "xжурнал-приложения-данные-архив-службы-платежей-и-отчётов",
    "日本語のログ保存先ディレクトリの名前はとても長いのです",
    "x日本語のログ保存先ディレクトリの名前はとても長いのです",
    "xy日本語のログ保存先ディレクトリの名前はとても長いのです",
    "protokolle-der-zahlungsdienste-für-größere-übersichten-und-mehr",
];

static BURSTY: std::sync::atomic::AtomicBool = std::sync::atomic::AtomicBool::new(false);

pub fn execute(scn: &Scn, opts: &ExecOpts) -> Outcome {
    let mut out = Outcome::default();
    BURSTY.store(scn.phases.iter().any(|p| matches!(p, Phase::Work { threads } if threads.iter().flatten().any(|o| matches!(o, Op::Burst { .. })))), std::sync::atomic::Ordering::Relaxed);
    let outer = Scratch::new("r");
    let scratch = if scn.long_path > 0 {
        let inner = Scratch { root: outer.root.join(LONG_DIRS[(scn.long_path as usize - 1) % LONG_DIRS.len()]) };
        fs::create_dir_all(&inner.root).unwrap();
        inner
    } else {
        Scratch { root: outer.root.join("t") }
    };
    fs::create_dir_all(&scratch.root).unwrap();
    let root2 = if matches!(scn.roller, RollerSpec::Fixed { pat: PatKind::SecondMount | PatKind::DirSplit, .. }) {
        fsutil::second_mount_base().map(|b| {
            let p = b.join(outer.root.file_name().unwrap());
            let _ = fs::remove_dir_all(&p);
            fs::create_dir_all(&p).unwrap();
            p
        })
    } else {
        None
    };
    let names = Names::new(&scratch.root, root2.as_deref(), &scn.roller);
    let model = setup_tree(scn, &names);
    let fault_mode = !scn.faults.is_empty() || scn.crash.is_some() || scn.phases.iter().any(|p| matches!(p, Phase::Obstacle { .. }));
    let sink = Arc::new(Sink::default());
    let sh = Arc::new(Shared {
        names,
        model: Mutex::new(model),
        inflight: Mutex::new(HashMap::new()),
        acked: Mutex::new(HashSet::new()),
        life: Mutex::new(Lifetime::default()),
        sink: sink.clone(),
        trigger: scn.trigger.clone(),
        fault_mode,
        in_roll: Mutex::new(None),
        append_mode: Mutex::new(scn.append),
        image: Mutex::new(None),
        image_state: Mutex::new(None),
        lenient: Mutex::new(false),
        enc_fail: scn.enc_fail.clone(),
        silent: scn.silent.clone(),
        truncating: Mutex::new(false),
        dirty: Mutex::new(false),
        c16_boundary_fires: Mutex::new(0),
        next_sched: Mutex::new(i64::MIN),
        bulk: std::sync::atomic::AtomicBool::new(false),
    });
    let sched = opts.sched.clone().unwrap_or(Sched::Prng { seed: scn.sched_seed, policy: scn.policy.clone() });
    let _std = if scn.std_broken {
        sink.probe("runs_with_unusable_stdout_stderr", 1);
        Some(fsutil::BrokenStd::install())
    } else {
        None
    };
    let k = common::begin(RunCfg {
        sched,
        trace: opts.trace,
        start_ns: scn.start_ns,
        tz: scn.tz.clone(),
        faults: scn.faults.clone(),
        crash: scn.crash.clone(),
        rand_script: scn.rand_script.clone(),
        step_cap: if scn.phases.iter().any(|p| matches!(p, Phase::Work { threads } if threads.iter().flatten().any(|o| matches!(o, Op::Burst { .. })))) { 20_000_000 } else { 50_000 },
    });
    if scn.crash.is_some() {
        let shc = sh.clone();
        k.set_crash_cb(Box::new(move |site, n| crash_image(&shc, site, n)));
    }
    let live = Arc::new(Mutex::new(Live { appender: None }));
    let mut overlapped = false;
    let mut stop = false;

    // phase 0: build the first appender on a simulated thread (so the time
    // trigger reads the simulated clock in the scenario's zone)
    let mut plan: Vec<Phase> = vec![Phase::Restart { append: scn.append, dirty: false, overlap: false }];
    plan.extend(scn.phases.iter().cloned());
    let mut tid_base = 0u16;
    for (pi, ph) in plan.iter().enumerate() {
        if stop {
            break;
        }
        let bodies: Vec<Box<dyn FnOnce() + Send>> = match ph {
            Phase::Restart { append, dirty, overlap } => {
                let (append, dirty) = (*append, *dirty);
                // overlapping lifetimes only where the old appender's trigger has no per-lifetime state
                let overlap = *overlap && append && !fault_mode && pi > 0 && matches!(scn.trigger, TriggerSpec::Script { .. } | TriggerSpec::Time { .. });
                let overlap_tid = 700 + pi as u16;
                let sh = sh.clone();
                let live = live.clone();
                let scn2 = scn.clone();
                let first = pi == 0;
                vec![Box::new(move || {
                    kernel::note("restart", &format!("append={} dirty={}", append, dirty));
                    wait_for_bg_rotation();
                    let old = live.lock().unwrap().appender.take();
                    let prev_append = *sh.append_mode.lock().unwrap();
                    // the old appender's extra record must not rotate the file under the new one
                    let quiet = match &scn2.trigger {
                        TriggerSpec::Time { .. } => clock::now_ns() < *sh.next_sched.lock().unwrap(),
                        _ => true,
                    };
                    if overlap && prev_append && quiet && old.is_some() {
                        *sh.append_mode.lock().unwrap() = true;
                        // reload order: build the new appender first …
                        let old = old.unwrap();
                        match build_appender(&scn2, &sh, true) {
                            Ok(newer) => {
                                // … the old one still writes a record …
                                let zero = Mutex::new(0u32);
                                do_append(&sh, &**old, RecId { tid: overlap_tid, n: 0 }, 20, &zero);
                                drop(old);
                                sh.sink.probe("overlapping_restarts", 1);
                                // … then only the new one is used
                                live.lock().unwrap().appender = Some(Arc::new(newer));
                            }
                            Err(e) => sh.sink.fail("C05", "C05-E0", "build-failed", format!("building the appender failed although nothing was injected: {:#}", e)),
                        }
                        return;
                    }
                    if let Some(a) = old {
                        if dirty {
                            // process death without running destructors: user-space buffers are lost
                            std::mem::forget(a);
                            {
                                // the buffer is lost, except for what it had already spilled to the file
                                let mut m = sh.model.lock().unwrap();
                                if !m.limbo.is_empty() {
                                    let disk = fs::read(&sh.names.active).unwrap_or_default();
                                    if disk.starts_with(&m.active) && m.limbo.starts_with(&disk[m.active.len()..]) {
                                        m.active = disk;
                                    }
                                    m.limbo.clear();
                                }
                            }
                            sh.sink.probe("dirty_restarts", 1);
                        } else {
                            drop(a);
                            // closing the writer flushes what a failed encoder left in the buffer
                            let mut m = sh.model.lock().unwrap();
                            let limbo = std::mem::take(&mut m.limbo);
                            m.active.extend_from_slice(&limbo);
                            drop(m);
                            sh.sink.probe("clean_restarts", 1);
                        }
                    }
                    if !first && !*sh.dirty.lock().unwrap() {
                        // closing the appender must not change anything
                        if !*sh.lenient.lock().unwrap() {
                            sh.model.lock().unwrap().check(&sh.names, &sh.sink, attr_for(&sh), false, "after closing the appender");
                        }
                    }
                    *sh.append_mode.lock().unwrap() = append;
                    *sh.truncating.lock().unwrap() = !append;
                    let built = build_appender(&scn2, &sh, append);
                    *sh.truncating.lock().unwrap() = false;
                    match built {
                        Ok(a) => {
                            if !append {
                                let mut m = sh.model.lock().unwrap();
                                // truncate mode discards exactly the active chunk, at open
                                m.discard_active();
                            }
                            if !*sh.dirty.lock().unwrap() && !*sh.lenient.lock().unwrap() {
                                let at = if sh.fault_mode { attr_for(&sh) } else { Attr { prop: "C05", data: "C05-I4", other_prop: "C07", other: "C07-I4", sig: "", also: None } };
                                sh.model.lock().unwrap().check(&sh.names, &sh.sink, at, false, if append { "after opening in append mode" } else { "after opening in truncate mode" });
                            }
                            live.lock().unwrap().appender = Some(Arc::new(a));
                        }
                        Err(e) => {
                            if !sh.fault_mode {
                                sh.sink.fail("C05", "C05-E0", "build-failed", format!("building the appender failed although nothing was injected: {:#}", e));
                            } else {
                                sh.sink.probe("build_err_after_fault", 1);
                                if !append && fs::metadata(&sh.names.active).map(|m| m.len()).unwrap_or(0) == 0 {
                                    // truncate mode discards the active chunk at open time, whether or
                                    // not the rest of the start-up then succeeds
                                    let mut m = sh.model.lock().unwrap();
                                    m.discard_active();
                                }
                                let unacked = HashSet::new();
                                after_fault(&sh, &unacked, &format!("after the failed (re)open ({:#})", e));
                            }
                        }
                    }
                })]
            }
            Phase::Obstacle { off, put } => {
                let sh = sh.clone();
                let (off, put) = (*off, *put);
                vec![Box::new(move || {
                    let roller = sh.model.lock().unwrap().roller.clone();
                    if let RollerSpec::Fixed { base, .. } = &roller {
                        let p = sh.names.arch(base + off);
                        // patterns with the index in a directory: sometimes a *file* where that directory is needed
                        let parent = p.parent().map(|x| x.to_path_buf());
                        let dir_pattern = matches!(roller, RollerSpec::Fixed { pat: PatKind::Dir | PatKind::Repeated | PatKind::DirSplit | PatKind::EnvSlash, .. });
                        if put && dir_pattern && off % 3 == 1 && parent.as_ref().map(|x| fs::symlink_metadata(x).is_err()).unwrap_or(false) {
                            // the slot directory is a link to a volume that is unavailable right now
                            let gone = sh.names.root.with_extension("vol").join(off.to_string());
                            let _ = std::os::unix::fs::symlink(&gone, parent.as_ref().unwrap());
                            kernel::note("obstacle.dangling", &sh.names.key(parent.as_ref().unwrap()));
                            sh.sink.probe("obstacle_dangling_symlink_slot_directory", 1);
                        } else if put && dir_pattern && off % 2 == 0 && parent.as_ref().map(|x| !x.exists()).unwrap_or(false) {
                            let _ = fs::write(parent.as_ref().unwrap(), rmodel::OBSTACLE_MARK);
                            kernel::note("obstacle.file", &sh.names.key(parent.as_ref().unwrap()));
                            sh.sink.probe("obstacle_file_where_directory_needed", 1);
                        } else if put {
                            let _ = fs::create_dir_all(p.join("keep"));
                            let _ = fs::write(p.join("keep").join("x"), b"x");
                            kernel::note("obstacle.put", &sh.names.key(&p));
                            sh.sink.probe("obstacle_directory_at_archive_name", 1);
                        } else {
                            if p.join("keep").is_dir() {
                                let _ = fs::remove_dir_all(&p);
                            }
                            if let Some(par) = &parent {
                                if fs::read(par).map(|b| b == rmodel::OBSTACLE_MARK).unwrap_or(false) {
                                    let _ = fs::remove_file(par);
                                }
                                if fs::symlink_metadata(par).map(|m| m.file_type().is_symlink()).unwrap_or(false) && fs::metadata(par).is_err() {
                                    let _ = fs::remove_file(par);
                                }
                            }
                            kernel::note("obstacle.remove", &sh.names.key(&p));
                        }
                    }
                })]
            }
            Phase::Purge => {
                let sh = sh.clone();
                vec![Box::new(move || {
                    wait_for_bg_rotation();
                    let _ = fs::remove_dir_all(sh.names.root.join("arch"));
                    let mut m = sh.model.lock().unwrap();
                    m.purge_archives();
                    kernel::note("purge", "");
                    sh.sink.probe("archive_directory_purged", 1);
                })]
            }
            Phase::Sweep => {
                let sh = sh.clone();
                vec![Box::new(move || {
                    fn sweep(d: &Path) -> bool {
                        // returns true if `d` is empty afterwards
                        let mut empty = true;
                        if let Ok(rd) = fs::read_dir(d) {
                            for e in rd.flatten() {
                                let p = e.path();
                                let is_dir = fs::symlink_metadata(&p).map(|m| m.is_dir()).unwrap_or(false);
                                if is_dir {
                                    if sweep(&p) {
                                        let _ = fs::remove_dir(&p);
                                    } else {
                                        empty = false;
                                    }
                                } else {
                                    empty = false;
                                }
                            }
                        }
                        empty
                    }
                    let arch = sh.names.root.join("arch");
                    if sweep(&arch) {
                        let _ = fs::remove_dir(&arch);
                    }
                    kernel::note("sweep", "");
                    sh.sink.probe("empty_directory_sweeps", 1);
                })]
            }
            Phase::Work { threads } => {
                let inflight_count = Arc::new(Mutex::new(0u32));
                let ov = Arc::new(Mutex::new(false));
                let mut bodies: Vec<Box<dyn FnOnce() + Send>> = vec![];
                for (ti, ops) in threads.iter().enumerate() {
                    let tid = tid_base + ti as u16;
                    let ops = ops.clone();
                    let sh = sh.clone();
                    let live = live.clone();
                    let inflight_count = inflight_count.clone();
                    let ov = ov.clone();
                    bodies.push(Box::new(move || {
                        for op in ops {
                            if sh.sink.any() {
                                break;
                            }
                            match op {
                                Op::Append { n, len } => {
                                    let a = live.lock().unwrap().appender.clone();
                                    if let Some(a) = a {
                                        if *inflight_count.lock().unwrap() > 0 {
                                            *ov.lock().unwrap() = true;
                                        }
                                        do_append(&sh, &**a, RecId { tid, n }, len, &inflight_count);
                                    }
                                }
                                Op::Burst { n0, count, len } => {
                                    let a = live.lock().unwrap().appender.clone();
                                    if let Some(a) = a {
                                        sh.bulk.store(true, std::sync::atomic::Ordering::Relaxed);
                                        sh.sink.probe("bursts", 1);
                                        sh.sink.probe("records_in_bursts", count as u64);
                                        for k in 0..count {
                                            if sh.sink.any() {
                                                break;
                                            }
                                            do_append(&sh, &**a, RecId { tid, n: n0.wrapping_add(k as u16) }, len, &inflight_count);
                                        }
                                    }
                                }
                                Op::Advance { ns } => {
                                    let t = clock::now_ns().saturating_add(ns);
                                    set_clock(t);
                                    kernel::note("advance", &ns.to_string());
                                }
                                Op::AdvanceToNext { offset_s } => {
                                    // read the schedule through the live appender's probe (set by ProbeTrigger)
                                    let s = *sh.next_sched.lock().unwrap();
                                    if s != i64::MIN {
                                        set_clock(s.saturating_add(offset_s * 1_000_000_000));
                                        kernel::note("advance.to", &offset_s.to_string());
                                    }
                                }
                            }
                            kernel::point("op.done");
                        }
                    }));
                }
                tid_base += threads.len() as u16;
                let _ = &ov;
                let r = bodies;
                // remember overlap after the phase
                let ov2 = ov.clone();
                let res = run_bodies(&k, r, &sink, &mut out, &scn.trigger, fault_mode);
                if sh.bulk.swap(false, std::sync::atomic::Ordering::Relaxed) && res && !sink.any() && !*sh.dirty.lock().unwrap() && !*sh.lenient.lock().unwrap() && !bg_rotation_in_flight() {
                    let at = attr_for(&sh);
                    let m = sh.model.lock().unwrap();
                    if m.pending.is_none() && m.check(&sh.names, &sink, at, false, "after a burst of records") {
                        m.check_stream(&sh.names, &sink, at.prop, if sh.fault_mode { "C08-I3" } else { "C05-I2" }, "after a burst of records");
                    }
                }
                overlapped |= *ov2.lock().unwrap();
                if !res {
                    stop = true;
                }
                continue;
            }
        };
        if !run_bodies(&k, bodies, &sink, &mut out, &scn.trigger, fault_mode) {
            stop = true;
        }
        if sink.any() {
            stop = true;
        }
    }
    // quiescent end-of-run check
    if !stop && !sink.any() && out.harness_error.is_none() && !*sh.dirty.lock().unwrap() {
        let at = attr_for(&sh);
        let m = sh.model.lock().unwrap();
        if *sh.lenient.lock().unwrap() {
            lenient_check(&sh, &m, "at the end of the run");
        } else if m.pending.is_some() && !sh.fault_mode {
            sink.fail("C05", "C05-I1", "pending-at-quiescence", "a record is still marked in flight although every append returned".into());
        } else if m.pending.is_none() && m.check(&sh.names, &sink, at, false, "at the end of the run") {
            m.check_stream(&sh.names, &sink, at.prop, if sh.fault_mode { "C08-I3" } else { "C05-I2" }, "at the end of the run");
        }
    }
    // C08-L1: bounded liveness once faults have stopped — same appender …
    if scn.liveness && !stop && !sink.any() && out.harness_error.is_none() && scn.crash.is_none() {
        if !liveness_epilogue(&k, scn, &sh, &live, &sink, &mut out, "the same appender") {
            stop = true;
        }
    }
    live.lock().unwrap().appender = None;
    // … and a fresh appender over the crash image
    let image = sh.image.lock().unwrap().clone();
    if let (Some((img, img2)), true) = (image, scn.liveness && !stop && !sink.any() && out.harness_error.is_none()) {
        let names2 = Names::new(&img, img2.as_deref(), &scn.roller);
        let mut model2 = Model { roller: scn.roller.clone(), active: vec![], pending: None, limbo: vec![], unacked: HashSet::new(), window: BTreeMap::new(), others: BTreeMap::new(), stream: vec![], rolls_ok: 0 };
        let exact = model2.resync(&names2);
        let sh2 = Arc::new(Shared {
            names: names2,
            model: Mutex::new(model2),
            inflight: Mutex::new(HashMap::new()),
            acked: Mutex::new(HashSet::new()),
            life: Mutex::new(Lifetime::default()),
            sink: sink.clone(),
            trigger: scn.trigger.clone(),
            fault_mode: true,
            in_roll: Mutex::new(None),
            append_mode: Mutex::new(*sh.append_mode.lock().unwrap()),
            image: Mutex::new(None),
            image_state: Mutex::new(None),
            lenient: Mutex::new(!exact),
            enc_fail: vec![],
            silent: vec![],
            truncating: Mutex::new(false),
            dirty: Mutex::new(false),
            c16_boundary_fires: Mutex::new(0),
            next_sched: Mutex::new(i64::MIN),
            bulk: std::sync::atomic::AtomicBool::new(false),
        });
        let live2 = Arc::new(Mutex::new(Live { appender: None }));
        liveness_epilogue(&k, scn, &sh2, &live2, &sink, &mut out, "a fresh appender over the crash image");
        live2.lock().unwrap().appender = None;
        sink.probe("crash_image_recoveries", 1);
    }
    if let Some((img, img2)) = sh.image.lock().unwrap().take() {
        let _ = fs::remove_dir_all(img);
        if let Some(i2) = img2 {
            let _ = fs::remove_dir_all(i2);
        }
    }
    let rolls = sh.model.try_lock().map(|m| m.rolls_ok).unwrap_or(0);
    let (summary, now) = common::end(&k);
    let (v, probes) = sink.take();
    out.violations = v;
    out.probes = probes;
    if overlapped {
        out.probe("appends_overlapped", 1);
    }
    if summary.faults_fired.len() >= 2 {
        out.probe("runs_with_two_injected_errors_fired", 1);
    }
    if !summary.faults_fired.is_empty() && summary.crash_fired {
        out.probe("runs_with_injected_error_then_process_death", 1);
    }
    let fires = *sh.c16_boundary_fires.lock().unwrap();
    out.nontrivial = match &scn.trigger {
        TriggerSpec::Time { .. } => fires > 0,
        TriggerSpec::OnStartUp { .. } => rolls > 0 || overlapped,
        _ => rolls > 0,
    };
    match &scn.roller {
        RollerSpec::Delete => out.probe("roller_delete", 1),
        RollerSpec::Fixed { pat, count, .. } => {
            out.probe(&format!("pattern_{:?}", pat), 1);
            if *count == 0 {
                out.probe("roller_count_zero", 1);
            }
            if root2.is_some() {
                out.probe("second_mount_in_use", 1);
            }
        }
    }
    out.sim_ns = now.saturating_sub(scn.start_ns);
    out.summary = summary;
    if let Some(r2) = &root2 {
        let _ = fs::remove_dir_all(r2);
    }
    let _ = fs::remove_dir_all(sh.names.root.with_extension("vol"));
    out
}

/// Takes the crash image at `site`: validates C08-I2/I3 on it and keeps a copy
/// of the tree for the restarted-appender liveness check.
fn crash_image(sh: &Arc<Shared>, site: &str, n: u32) {
    let m = sh.model.lock().unwrap();
    let pre_roll = sh.in_roll.lock().unwrap().clone();
    let in_roll = pre_roll.is_some();
    let pre = pre_roll.unwrap_or_else(|| PreState { active: m.active.clone(), pending: m.pending.clone(), window: m.window.clone() });
    let tree = sh.names.snapshot();
    let unacked: HashSet<RecId> = sh.inflight.lock().unwrap().keys().copied().collect();
    let when = format!("crash image at {}#{}", site, n);
    let mut pre = pre;
    let mut stream = m.stream.clone();
    if *sh.truncating.lock().unwrap() && tree.get(&sh.names.key(&sh.names.active)).map(|b| b.is_empty()).unwrap_or(true) {
        // truncate mode: the open has already discarded the active chunk
        let n = frame::whole_ids(&pre.active).len();
        let keep = stream.len().saturating_sub(n);
        stream.truncate(keep);
        pre.active.clear();
    }
    let ctx = InstantCtx { names: &sh.names, roller: &m.roller, tree: &tree, pre: &pre, in_roll, unacked: &unacked, compress_site: site.starts_with("compress."), tolerate_corrupt: *sh.lenient.lock().unwrap(), stream: &stream, when: &when };
    if rmodel::check_instant(&ctx, &sh.sink) {
        let img = sh.names.root.with_extension("img");
        let _ = fs::remove_dir_all(&img);
        let _ = fsutil::copy_tree(&sh.names.root, &img);
        let img2 = sh.names.root2.as_ref().map(|r2| {
            let i2 = r2.with_extension("img");
            let _ = fs::remove_dir_all(&i2);
            let _ = fsutil::copy_tree(r2, &i2);
            i2
        });
        *sh.image.lock().unwrap() = Some((img, img2));
        sh.sink.probe("crash_images_taken", 1);
    }
}

/// C08-L1. Returns false if the run must stop.
fn liveness_epilogue(k: &Arc<kernel::Kernel>, scn: &Scn, sh: &Arc<Shared>, live: &Arc<Mutex<Live>>, sink: &Arc<Sink>, out: &mut Outcome, who: &'static str) -> bool {
    let sh = sh.clone();
    let live = live.clone();
    let scn2 = scn.clone();
    k.stop_faults();
    let body: Box<dyn FnOnce() + Send> = Box::new(move || {
        // the obstruction is gone
        if let RollerSpec::Fixed { base, count, .. } = &scn2.roller {
            for i in *base..*base + *count + 1 {
                let p = sh.names.arch(i);
                if p.is_dir() {
                    let _ = fs::remove_dir_all(&p);
                }
                if let Some(par) = p.parent() {
                    if fs::read(par).map(|b| b == rmodel::OBSTACLE_MARK).unwrap_or(false) {
                        let _ = fs::remove_file(par);
                    }
                    // the unavailable volume is back: the link resolves again
                    if fs::symlink_metadata(par).map(|m| m.file_type().is_symlink()).unwrap_or(false) && fs::metadata(par).is_err() {
                        if let Ok(t) = fs::read_link(par) {
                            let _ = fs::create_dir_all(t);
                        }
                    }
                }
            }
        }
        let mode = *sh.append_mode.lock().unwrap();
        let ensure = |sh: &Arc<Shared>| -> Option<Arc<Box<dyn Append>>> {
            if let Some(a) = live.lock().unwrap().appender.clone() {
                return Some(a);
            }
            match build_appender(&scn2, sh, mode) {
                Ok(a) => {
                    if !mode {
                        let mut m = sh.model.lock().unwrap();
                        m.discard_active();
                    }
                    let a = Arc::new(a);
                    live.lock().unwrap().appender = Some(a.clone());
                    Some(a)
                }
                Err(e) => {
                    sh.sink.fail("C08", "C08-L1", "reopen-failed", format!("{}: cannot (re)open the appender once the obstruction is gone: {:#}", who, e));
                    None
                }
            }
        };
        let rolls0 = sh.model.lock().unwrap().rolls_ok;
        let zero = Mutex::new(0u32);
        let can_fire = match &scn2.trigger {
            TriggerSpec::OnStartUp { min_size } => mode || *min_size == 0,
            _ => true,
        };
        for i in 0..3u16 {
            if sh.sink.any() {
                return;
            }
            let id = RecId { tid: 800, n: i };
            let len = match &scn2.trigger {
                TriggerSpec::Size { limit } => (*limit as u32).min(6000) + 1,
                TriggerSpec::OnStartUp { min_size } => (*min_size as u32).min(6000).max(1),
                _ => 5,
            };
            if let TriggerSpec::Time { .. } = &scn2.trigger {
                let s = *sh.next_sched.lock().unwrap();
                if s != i64::MIN {
                    set_clock(s.saturating_add(1_000_000_000));
                }
            }
            if let TriggerSpec::OnStartUp { .. } = &scn2.trigger {
                if i > 0 {
                    // start-up triggers fire on the first record after a start-up
                    live.lock().unwrap().appender = None;
                }
            }
            let a = match ensure(&sh) {
                Some(a) => a,
                None => return,
            };
            let before = sh.acked.lock().unwrap().len();
            do_append(&sh, &**a, id, len, &zero);
            if sh.sink.any() {
                return;
            }
            if sh.acked.lock().unwrap().len() == before {
                sh.sink.fail("C08", "C08-L1", "append-fails-after-recovery", format!("{}: append number {} after the fault was cleared still fails", who, i + 1));
                return;
            }
            if sh.model.lock().unwrap().rolls_ok > rolls0 {
                sh.sink.probe("liveness_rotation_completed", 1);
                return;
            }
        }
        if can_fire {
            sh.sink.fail("C08", "C08-L1", "no-rotation-after-recovery", format!("{}: three appends that satisfy the trigger were acknowledged after the fault was cleared but no rotation completed", who));
        }
    });
    run_bodies(k, vec![body], sink, out, &scn.trigger, true)
}

fn run_bodies(k: &Arc<kernel::Kernel>, bodies: Vec<Box<dyn FnOnce() + Send>>, sink: &Arc<Sink>, out: &mut Outcome, trigger: &TriggerSpec, obstructed: bool) -> bool {
    // a burst of tens of thousands of records is one phase: it gets more time before it counts as a stall
    let wd = if BURSTY.load(std::sync::atomic::Ordering::Relaxed) { 900.0 } else { common::WATCHDOG_S };
    let panics = k.run_phase(bodies, wd);
    for (t, msg) in panics {
        if t == usize::MAX {
            out.harness_error = Some("STALL: a simulated thread did not reach a decision point".into());
            return false;
        }
        let faulty = obstructed || k.any_fault_or_crash_fired();
        let (p, i) = match trigger {
            _ if faulty => ("C08", "C08-I1"),
            TriggerSpec::Time { .. } => ("C16", "C16-I5"),
            _ => ("C05", "C05-E0"),
        };
        let mut sig = panic_signature(&msg);
        if let TriggerSpec::Time { n, .. } = trigger {
            sig = format!("{}:{}", sig, n_class(*n));
        }
        sink.fail(p, i, &sig, format!("thread panicked: {}", msg));
    }
    if let Some(a) = k.abort_reason() {
        out.harness_error = Some(format!("run aborted: {:?}", a));
        return false;
    }
    true
}

/// Stable classification of a panic: source file + first words of the message.
pub fn panic_signature(msg: &str) -> String {
    let loc = msg.split(':').next().unwrap_or("?");
    let file = loc.rsplit('/').next().unwrap_or(loc);
    let what = if msg.contains("Ambiguous local time") {
        "ambiguous-local-time"
    } else if msg.contains("No such local time") {
        "no-such-local-time"
    } else if msg.contains("out of bounds") || msg.contains("out of range") || msg.contains("overflow") {
        "out-of-range"
    } else {
        "other"
    };
    format!("panic:{}:{}", file, what)
}

pub fn size(s: &Scn) -> usize {
    let mut n = 0;
    for p in &s.phases {
        n += 1;
        if let Phase::Work { threads } = p {
            for t in threads {
                n += 1 + t.len();
                for o in t {
                    if let Op::Append { len, .. } = o {
                        n += (*len as usize) / 256;
                    }
                    if let Op::Burst { count, .. } = o {
                        n += (*count as usize) / 100;
                    }
                }
            }
        }
    }
    n + s.pre_archives.len() + s.bystanders.len() + s.pre_active.as_ref().map(|v| 1 + v.len()).unwrap_or(0) + s.faults.len() + s.via_logger as usize + s.std_broken as usize + s.via_config as usize
}

pub fn shrink(s: &Scn) -> Vec<Scn> {
    let mut out = vec![];
    for (pi, p) in s.phases.iter().enumerate() {
        if let Phase::Work { threads } = p {
            for (ti, t) in threads.iter().enumerate() {
                for (oi, o) in t.iter().enumerate() {
                    if let Op::Burst { n0, count, len } = o {
                        for c2 in [*count / 2, count.saturating_sub(1000), count.saturating_sub(1)] {
                            if c2 > 0 && c2 < *count {
                                let mut c = s.clone();
                                if let Phase::Work { threads } = &mut c.phases[pi] {
                                    threads[ti][oi] = Op::Burst { n0: *n0, count: c2, len: *len };
                                }
                                out.push(c);
                            }
                        }
                    }
                    if let Op::Append { n, len } = o {
                        if *len > 4096 {
                            let mut c = s.clone();
                            if let Phase::Work { threads } = &mut c.phases[pi] {
                                threads[ti][oi] = Op::Append { n: *n, len: *len / 2 };
                            }
                            out.push(c);
                        }
                    }
                }
            }
        }
    }
    for f in 0..3 {
        let mut c = s.clone();
        let on = match f {
            0 => std::mem::replace(&mut c.via_logger, false),
            1 => std::mem::replace(&mut c.std_broken, false),
            _ => std::mem::replace(&mut c.via_config, false),
        };
        if on {
            out.push(c);
        }
    }
    for i in 0..s.phases.len() {
        let mut c = s.clone();
        c.phases.remove(i);
        out.push(c);
    }
    for (pi, p) in s.phases.iter().enumerate() {
        if let Phase::Work { threads } = p {
            if threads.len() > 1 {
                for ti in 0..threads.len() {
                    let mut c = s.clone();
                    if let Phase::Work { threads } = &mut c.phases[pi] {
                        threads.remove(ti);
                    }
                    out.push(c);
                }
            }
            for (ti, t) in threads.iter().enumerate() {
                for oi in 0..t.len() {
                    let mut c = s.clone();
                    if let Phase::Work { threads } = &mut c.phases[pi] {
                        threads[ti].remove(oi);
                    }
                    out.push(c);
                }
            }
        }
    }
    if !s.bystanders.is_empty() {
        let mut c = s.clone();
        c.bystanders.clear();
        out.push(c);
    }
    for i in 0..s.pre_archives.len() {
        let mut c = s.clone();
        c.pre_archives.remove(i);
        out.push(c);
    }
    if s.pre_active.is_some() {
        let mut c = s.clone();
        c.pre_active = None;
        out.push(c);
    }
    if s.encoder != EncKind::Pattern && s.enc_fail.is_empty() {
        let mut c = s.clone();
        c.encoder = EncKind::Pattern;
        out.push(c);
    }
    for i in 0..s.faults.len() {
        let mut c = s.clone();
        c.faults.remove(i);
        out.push(c);
    }
    for i in 0..s.enc_fail.len() {
        let mut c = s.clone();
        c.enc_fail.remove(i);
        out.push(c);
    }
    for i in 0..s.silent.len() {
        let mut c = s.clone();
        c.silent.remove(i);
        out.push(c);
    }
    for (pi, p) in s.phases.iter().enumerate() {
        if let Phase::Work { threads } = p {
            for (ti, t) in threads.iter().enumerate() {
                for (oi, o) in t.iter().enumerate() {
                    if let Op::Append { n, len } = o {
                        for cand in [1u32, 16] {
                            if cand < *len {
                                let mut c = s.clone();
                                if let Phase::Work { threads } = &mut c.phases[pi] {
                                    threads[ti][oi] = Op::Append { n: *n, len: cand };
                                }
                                out.push(c);
                                break;
                            }
                        }
                    }
                }
            }
        }
    }
    out
}


pub const FAULT_SITES: [&str; 8] = ["rotate.shift", "rotate.final", "compress.create", "compress.copy", "compress.remove", "delete.remove", "rf.open", "bg.rename"];
pub const CRASH_ONLY_SITES: [&str; 6] = ["policy.closed", "rf.pre.processed", "rf.pre.encoded", "rf.pre.flushed", "rf.post.encoded", "rf.post.flushed"];

/// C08 fault enumeration: one variant per occurrence of every rotation-step
/// site of the fault-free execution, once with an error injected there and
/// once with the process dying there.
pub fn fault_variants(scn: &Scn, hits: &[(String, u32)]) -> Vec<Scn> {
    let errnos = [libc::EACCES, libc::EIO, libc::ENOSPC, libc::EMFILE];
    let mut out = vec![];
    let mut k = 0usize;
    for (site, nth) in hits {
        let faultable = FAULT_SITES.contains(&site.as_str());
        let crashable = faultable || CRASH_ONLY_SITES.contains(&site.as_str());
        if faultable {
            let mut c = scn.clone();
            c.faults = vec![FaultSpec { site: site.clone(), nth: *nth, errno: errnos[k % errnos.len()] }];
            c.crash = None;
            c.liveness = true;
            out.push(c);
            k += 1;
        }
        if crashable {
            let mut c = scn.clone();
            c.faults = vec![];
            c.crash = Some(CrashSpec { site: site.clone(), nth: *nth });
            c.liveness = true;
            out.push(c);
        }
    }
    // fault *sequences*: a sample of two-fault histories per base run. The
    // second fault is placed where the recovery from the first one passes:
    // the retry of the same step (same site, next occurrence), the re-open
    // that follows a failed rotation, or any later step; and a process death
    // during the retry of a step that failed.
    let faultable: Vec<&(String, u32)> = hits.iter().filter(|(s, _)| FAULT_SITES.contains(&s.as_str())).collect();
    if !faultable.is_empty() {
        let mut rng = Rng::new(scn.sched_seed ^ 0xD0B1E);
        for _ in 0..faultable.len().min(4) {
            let i = rng.below(faultable.len() as u64) as usize;
            let (s1, n1) = faultable[i];
            let first = FaultSpec { site: s1.clone(), nth: *n1, errno: errnos[k % errnos.len()] };
            k += 1;
            let mut c = scn.clone();
            c.crash = None;
            c.liveness = true;
            match rng.below(4) {
                0 => {
                    // the same step fails again at its next occurrence
                    c.faults = vec![first, FaultSpec { site: s1.clone(), nth: *n1 + 1, errno: errnos[k % errnos.len()] }];
                }
                1 => {
                    // the re-open after the failed rotation fails too. `rf.open` occurrences up to
                    // the first fault are those of the base run; the next one is the re-open
                    let opens_before = hits.iter().take_while(|h| !(h.0 == *s1 && h.1 == *n1)).filter(|h| h.0 == "rf.open").count() as u32;
                    c.faults = vec![first, FaultSpec { site: "rf.open".into(), nth: opens_before + 1, errno: errnos[k % errnos.len()] }];
                }
                2 => {
                    // any later step of the base run
                    let j = i + rng.below((faultable.len() - i) as u64) as usize;
                    let (s2, n2) = faultable[j];
                    if (s2, n2) == (s1, n1) {
                        c.faults = vec![first, FaultSpec { site: s1.clone(), nth: *n1 + 2, errno: errnos[k % errnos.len()] }];
                    } else {
                        c.faults = vec![first, FaultSpec { site: s2.clone(), nth: *n2, errno: errnos[k % errnos.len()] }];
                    }
                }
                _ => {
                    // the process dies during the retry of the step that failed
                    c.faults = vec![first];
                    c.crash = Some(CrashSpec { site: s1.clone(), nth: *n1 + 1 });
                }
            }
            k += 1;
            out.push(c);
        }
    }
    out
}
