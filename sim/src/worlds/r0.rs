//! World R0 — rollers alone (C07): direct `Roll::roll` calls of the real
//! rollers over generated directory trees, with the whole tree compared with
//! the window model after every call.

use std::{collections::BTreeMap, fs, sync::Arc};

use serde::{Deserialize, Serialize};

use super::{
    common::{self, RunCfg},
    r,
    rmodel::{self, Attr, Model, Names, PatKind, RollerSpec},
    ExecOpts,
};
use crate::{
    frame::{self, RecId},
    fsutil::{self, Scratch},
    kernel,
    rng::Rng,
    Outcome, Sched, Sink, Tier,
};

#[derive(Clone, Debug, Serialize, Deserialize, PartialEq)]
pub struct Scn {
    pub roller: RollerSpec,
    pub pre_archives: Vec<(u32, Vec<u32>)>,
    pub bystanders: Vec<(String, u32)>,
    /// record lengths of each successively rolled file
    pub rolls: Vec<Vec<u32>>,
    /// injected errors at rotation-step sites (profile C07-fault); a failed
    /// roll is retried once and the history continues
    #[serde(default)]
    pub faults: Vec<kernel::FaultSpec>,
    /// (roll number, offset): before that roll a non-empty directory sits at
    /// archive `base + offset`; it is removed again before the following roll
    #[serde(default)]
    pub obstacles: Vec<(usize, u32)>,
    /// before these rolls (0-based) the whole archive directory is removed from outside
    #[serde(default)]
    pub purges: Vec<usize>,
    pub sched_seed: u64,
}

pub fn generate(rng: &mut Rng, tier: Tier) -> Scn {
    let roller = r::gen_roller(rng, tier, true);
    let (_, pre_archives, bystanders) = r::gen_pre(rng, &roller);
    let n = if tier == Tier::Thorough { rng.range(1, 12) } else { rng.weighted(&[0, 3, 3, 2, 2, 1, 1, 1]) as u64 } as usize;
    let rolls = (0..n.max(1))
        .map(|_| {
            let k = rng.weighted(&[1, 4, 3, 1]);
            (0..k).map(|_| super::f::gen_len(rng).min(3000)).collect()
        })
        .collect();
    let mut roller = roller;
    let mut rolls: Vec<Vec<u32>> = rolls;
    let mut pre_archives = pre_archives;
    match rng.weighted(&[36, 2, 2]) {
        1 => {
            // wide windows: indices with different numbers of digits are shifted in one roll
            let pat = *rng.pick(&[PatKind::Name, PatKind::Name, PatKind::Dir, PatKind::Env]);
            let (base, count) = *rng.pick(&[(0u32, 12u32), (0, 18), (1, 12), (0, 30), (5, 20), (95, 10), (92, 17)]);
            roller = RollerSpec::Fixed { pat, base, count };
            pre_archives.retain(|(i, _)| *i < base + count + 3);
            let n = rng.range(count as u64 + 2, count as u64 + 14) as usize;
            rolls = (0..n).map(|_| vec![rng.range(1, 40) as u32]).collect();
        }
        2 => {
            // rolled files whose size is an exact multiple of 64 KiB (or one byte off), also across mounts
            if !matches!(roller, RollerSpec::Delete) && rng.chance(2, 3) {
                if let RollerSpec::Fixed { base, count, .. } = &roller {
                    roller = RollerSpec::Fixed { pat: *rng.pick(&[PatKind::SecondMount, PatKind::DirSplit, PatKind::Name]), base: *base, count: (*count).max(2) };
                }
            }
            for (ri, r) in rolls.iter_mut().enumerate() {
                if rng.chance(2, 3) {
                    let target = *rng.pick(&[65536u64, 65536, 131072, 65535, 65537, 196608]);
                    let mut used = 0u64;
                    for (i, l) in r.iter().enumerate() {
                        used += r::enc_len_pub(ri as u16, i as u16, *l);
                    }
                    if used + 16 < target {
                        let i = r.len() as u16;
                        let rest = target - used;
                        // the last record fills the file up to the target exactly
                        let mut guess = rest.saturating_sub(14) as u32;
                        for _ in 0..6 {
                            let e = r::enc_len_pub(ri as u16, i, guess);
                            if e > rest {
                                guess -= (e - rest) as u32;
                            } else if e < rest {
                                guess += (rest - e) as u32;
                            }
                        }
                        if r::enc_len_pub(ri as u16, i, guess) == rest {
                            r.push(guess);
                        }
                    }
                }
            }
        }
        _ => {}
    }
    let mut purges = vec![];
    if rng.chance(1, 8) && !matches!(roller, RollerSpec::Fixed { pat: PatKind::SecondMount | PatKind::DirSplit, .. }) {
        let n: usize = n.max(1);
        purges.push(rng.below(n as u64) as usize);
    }
    Scn { roller, pre_archives, bystanders, rolls, faults: vec![], obstacles: vec![], purges, sched_seed: rng.next_u64() }
}

/// Rolls over a tree in which a real obstruction makes one rotation step fail
/// with its own errno: the roll must report the failure and destroy nothing.
pub fn generate_obst(rng: &mut Rng, tier: Tier) -> Scn {
    let mut s = generate(rng, tier);
    if cfg!(feature = "background_rotation") {
        // a failing background rotation is only printed, `roll` cannot report it:
        // no obstructions in that build (as for injected faults)
        return s;
    }
    if let RollerSpec::Fixed { pat, base, count } = &s.roller {
        if *count < 2 {
            s.roller = RollerSpec::Fixed { pat: *pat, base: *base, count: rng.range(2, 4) as u32 };
        }
    }
    if let RollerSpec::Fixed { count, .. } = &s.roller {
        // enough rolls to fill the window, the obstruction preferably at the top slot once it is full
        while s.rolls.len() < *count as usize + 1 {
            s.rolls.push(vec![rng.range(1, 60) as u32]);
        }
        let late = rng.chance(2, 3);
        let at = if late { s.rolls.len() - 1 - rng.below(2) as usize } else { rng.below(s.rolls.len() as u64) as usize };
        let off = if rng.chance(1, 2) { *count - 1 } else { rng.range(1, (*count - 1) as u64) as u32 };
        s.obstacles.push((at, off));
    }
    s
}

const AT: Attr = Attr { prop: "C07", data: "C07-I1", other_prop: "C07", other: "C07-I4", sig: "", also: None };

pub fn execute(scn: &Scn, opts: &ExecOpts) -> Outcome {
    let mut out = Outcome::default();
    let scratch = Scratch::new("r0");
    let root2 = if matches!(scn.roller, RollerSpec::Fixed { pat: PatKind::SecondMount | PatKind::DirSplit, .. }) {
        fsutil::second_mount_base().map(|b| {
            let p = b.join(scratch.root.file_name().unwrap());
            let _ = fs::remove_dir_all(&p);
            fs::create_dir_all(&p).unwrap();
            p
        })
    } else {
        None
    };
    let names = Arc::new(Names::new(&scratch.root, root2.as_deref(), &scn.roller));
    // reuse world R's tree set-up through a minimal R scenario
    let rscn = r::Scn {
        append: true,
        encoder: common::EncKind::Pattern,
        trigger: r::TriggerSpec::Size { limit: 0 },
        roller: scn.roller.clone(),
        pre_active: None,
        pre_archives: scn.pre_archives.clone(),
        bystanders: scn.bystanders.clone(),
        phases: vec![],
        tz: None,
        start_ns: common::T0_NS,
        rand_script: vec![],
        faults: vec![],
        crash: None,
        liveness: false,
        enc_fail: vec![],
        via_config: false,
        omit_append_key: false,
        silent: vec![],
        via_logger: false,
        std_broken: false,
        long_path: 0,
        sched_seed: 0,
        policy: kernel::Policy::RoundRobin,
    };
    let model = r::setup_tree(&rscn, &names);
    let sink = Arc::new(Sink::default());
    let sched = opts.sched.clone().unwrap_or(Sched::Prng { seed: scn.sched_seed, policy: kernel::Policy::RoundRobin });
    let k = common::begin(RunCfg { sched, trace: opts.trace, start_ns: common::T0_NS, tz: None, faults: scn.faults.clone(), crash: None, rand_script: vec![], step_cap: 20_000 });
    let rolls = scn.rolls.clone();
    let obstacles = scn.obstacles.clone();
    let purges = scn.purges.clone();
    let roller_spec = scn.roller.clone();
    let names2 = names.clone();
    let sink2 = sink.clone();
    let body: Box<dyn FnOnce() + Send> = Box::new(move || {
        let mut model: Model = model;
        let roller = match rmodel::build_roller(&roller_spec, &names2) {
            Ok(r) => r,
            Err(e) => {
                sink2.fail("C07", "C07-E0", "build-failed", format!("building the roller failed: {:#}", e));
                return;
            }
        };
        if !model.check(&names2, &sink2, AT, false, "before the first roll") {
            return;
        }
        for (ri, lens) in rolls.iter().enumerate() {
            let mut bytes = vec![];
            for (i, l) in lens.iter().enumerate() {
                let id = RecId { tid: ri as u16, n: i as u16 };
                bytes.extend_from_slice(frame::encode(id, *l as usize).as_bytes());
                model.stream.push(id);
            }
            fs::write(&names2.active, &bytes).unwrap();
            model.active = bytes;
            if purges.contains(&ri) {
                let _ = fs::remove_dir_all(names2.root.join("arch"));
                model.purge_archives();
                kernel::note("purge", "");
                sink2.probe("archive_directory_purged", 1);
            }
            // real obstructions
            let mut obstructed = false;
            if let RollerSpec::Fixed { base, .. } = &roller_spec {
                for (at, off) in &obstacles {
                    let p = names2.arch(base + off);
                    if *at == ri {
                        let _ = fs::create_dir_all(p.join("keep"));
                        let _ = fs::write(p.join("keep").join("x"), b"x");
                        obstructed = true;
                        sink2.probe("obstacle_directory_at_archive_name", 1);
                    } else if *at + 1 == ri {
                        // the obstruction is cleared, wherever the rotation may have carried it
                        if let RollerSpec::Fixed { base, count, .. } = &roller_spec {
                            for i in *base..=*base + *count {
                                let q = names2.arch(i);
                                if q.is_dir() {
                                    let _ = fs::remove_dir_all(&q);
                                }
                            }
                        }
                        let _ = p;
                    }
                }
            }
            kernel::note("roll", &format!("{} bytes={}", ri, model.active.len()));
            let fired_before = kernel::current().map(|k| k.faults_fired_count()).unwrap_or(0);
            match roller.roll(&names2.active) {
                Ok(()) => {
                    r::wait_for_bg_rotation();
                    model.on_roll();
                    if names2.active.exists() {
                        sink2.fail("C07", "C07-I3", "rolled-file-remains", format!("roll {} returned Ok but the rolled file still exists", ri + 1));
                        return;
                    }
                    if !model.check(&names2, &sink2, AT, false, &format!("after roll {}", ri + 1)) {
                        return;
                    }
                    sink2.probe("rolls_completed", 1);
                }
                Err(e) => {
                    let injected = kernel::current().map(|k| k.faults_fired_count() > fired_before).unwrap_or(false);
                    if obstructed && !injected {
                        // a real failure: nothing that was there before may be missing afterwards
                        sink2.probe("rolls_failed_by_obstruction", 1);
                        if !names2.active.exists() {
                            sink2.fail("C07", "C07-I1", "rolled-file-lost-by-failed-roll", format!("roll {} failed ({:#}) and the file being rolled is gone", ri + 1, e));
                            return;
                        }
                        let before: Vec<Vec<u8>> = model.window.values().cloned().collect();
                        model.resync(&names2);
                        for chunk in before.iter().filter(|c| !c.is_empty()) {
                            // the chunk about to be evicted may be gone, every other one must still be somewhere
                            let still = model.window.values().any(|c| c == chunk);
                            let evictable = model.managed().last().map(|_| true).unwrap_or(false) && before.last() == Some(chunk);
                            if !still && !evictable {
                                sink2.fail("C07", "C07-I1", "archive-lost-by-failed-roll", format!("roll {} failed ({:#}) and an archive that still fits the window ({:?}) is gone", ri + 1, e, frame::whole_ids(chunk).iter().map(|i| i.to_string()).collect::<Vec<_>>()));
                                return;
                            }
                        }
                        // the file stays where it was; it is rolled with the next roll's content replacing it in this harness,
                        // so archive it by hand to keep the history meaningful
                        let _ = fs::remove_file(&names2.active);
                        model.active.clear();
                        kernel::point("op.done");
                        continue;
                    }
                    if !injected {
                        sink2.fail("C07", "C07-E0", "roll-failed", format!("roll {} failed although nothing was injected: {:#}", ri + 1, e));
                        return;
                    }
                    // a failed roll: whatever it left behind is the new starting point; the
                    // rolled file must still be there, and rolling it again must work
                    sink2.probe("rolls_failed_by_injection", 1);
                    if !names2.active.exists() {
                        sink2.fail("C07", "C07-I1", "rolled-file-lost-by-failed-roll", format!("roll {} failed ({:#}) and the file being rolled is gone", ri + 1, e));
                        return;
                    }
                    // retried until it succeeds; a retry may fail again only if another fault was injected into it
                    let mut attempts = 0;
                    loop {
                        model.resync(&names2);
                        let fired = kernel::current().map(|k| k.faults_fired_count()).unwrap_or(0);
                        match roller.roll(&names2.active) {
                            Ok(()) => {
                                r::wait_for_bg_rotation();
                                model.on_roll();
                                if !model.check(&names2, &sink2, AT, false, &format!("after retrying roll {}", ri + 1)) {
                                    return;
                                }
                                break;
                            }
                            Err(e2) => {
                                let again = kernel::current().map(|k| k.faults_fired_count() > fired).unwrap_or(false);
                                attempts += 1;
                                if !again || attempts > 4 {
                                    sink2.fail("C07", "C07-E0", "retry-failed", format!("retrying roll {} failed although the fault is gone: {:#}", ri + 1, e2));
                                    return;
                                }
                                sink2.probe("retries_failed_by_a_second_injection", 1);
                                if !names2.active.exists() {
                                    sink2.fail("C07", "C07-I1", "rolled-file-lost-by-failed-roll", format!("the retry of roll {} failed ({:#}) and the file being rolled is gone", ri + 1, e2));
                                    return;
                                }
                            }
                        }
                    }
                }
            }
            kernel::point("op.done");
        }
    });
    let panics = k.run_phase(vec![body], common::WATCHDOG_S);
    for (t, msg) in panics {
        if t == usize::MAX {
            out.harness_error = Some("STALL".into());
        } else {
            sink.fail("C07", "C07-E0", &r::panic_signature(&msg), format!("roller panicked: {}", msg));
        }
    }
    if let Some(a) = k.abort_reason() {
        out.harness_error = Some(format!("run aborted: {:?}", a));
    }
    let (summary, _) = common::end(&k);
    let (v, probes) = sink.take();
    out.violations = v;
    out.probes = probes;
    out.nontrivial = out.probes.get("rolls_completed").copied().unwrap_or(0) > 0;
    match &scn.roller {
        RollerSpec::Delete => out.probe("roller_delete", 1),
        RollerSpec::Fixed { pat, count, .. } => {
            out.probe(&format!("pattern_{:?}", pat), 1);
            if *count == 0 {
                out.probe("roller_count_zero", 1);
            }
            if root2.is_some() {
                out.probe("second_mount_in_use", 1);
            }
        }
    }
    out.summary = summary;
    if let Some(r2) = &root2 {
        let _ = fs::remove_dir_all(r2);
    }
    let _: BTreeMap<u8, u8> = BTreeMap::new();
    out
}

pub fn size(s: &Scn) -> usize {
    s.rolls.iter().map(|r| 1 + r.len()).sum::<usize>() + s.pre_archives.len() + s.bystanders.len() + s.obstacles.len() + s.purges.len()
}

pub fn shrink(s: &Scn) -> Vec<Scn> {
    let mut out = vec![];
    for i in 0..s.rolls.len() {
        if s.rolls.len() > 1 {
            let mut c = s.clone();
            c.rolls.remove(i);
            out.push(c);
        }
    }
    for i in 0..s.pre_archives.len() {
        let mut c = s.clone();
        c.pre_archives.remove(i);
        out.push(c);
    }
    for i in 0..s.bystanders.len() {
        let mut c = s.clone();
        c.bystanders.remove(i);
        out.push(c);
    }
    for (i, r) in s.rolls.iter().enumerate() {
        if r.len() > 1 {
            let mut c = s.clone();
            c.rolls[i].truncate(1);
            out.push(c);
        }
        for (j, l) in r.iter().enumerate() {
            if *l > 4 {
                let mut c = s.clone();
                c.rolls[i][j] = 3;
                out.push(c);
            }
        }
    }
    out
}


/// One variant per rotation-step site of the fault-free execution, with an error injected there.
pub fn fault_variants(scn: &Scn, hits: &[(String, u32)]) -> Vec<Scn> {
    let errnos = [libc::EACCES, libc::EIO, libc::ENOSPC];
    let mut out = vec![];
    // wide windows pass hundreds of shift sites per history: an evenly spaced sample of them
    let stride = (hits.len() / 60).max(1);
    for (k, (site, nth)) in hits.iter().enumerate() {
        if k % stride != 0 {
            continue;
        }
        if r::FAULT_SITES.contains(&site.as_str()) && site != "rf.open" {
            let mut c = scn.clone();
            c.faults = vec![kernel::FaultSpec { site: site.clone(), nth: *nth, errno: errnos[k % errnos.len()] }];
            out.push(c);
        }
    }
    // two failures in one history: the retry of the failed step fails again, or a later step does
    let f: Vec<&(String, u32)> = hits.iter().filter(|(s, _)| r::FAULT_SITES.contains(&s.as_str()) && s != "rf.open").collect();
    if !f.is_empty() {
        let mut rng = Rng::new(scn.sched_seed ^ 0xD0B1E);
        for k in 0..f.len().min(3) {
            let i = rng.below(f.len() as u64) as usize;
            let (s1, n1) = f[i];
            let j = i + rng.below((f.len() - i) as u64) as usize;
            let (s2, n2) = if j == i || rng.chance(1, 2) { (s1.clone(), *n1 + 1) } else { (f[j].0.clone(), f[j].1) };
            let mut c = scn.clone();
            c.faults = vec![
                kernel::FaultSpec { site: s1.clone(), nth: *n1, errno: errnos[k % errnos.len()] },
                kernel::FaultSpec { site: s2, nth: n2, errno: errnos[(k + 1) % errnos.len()] },
            ];
            out.push(c);
        }
    }
    out
}
