//! Self-framing log records. Every record is `0x02 tid,n,len 0x03 payload`
//! with a payload that is a pure function of (tid, n, len), so any file parses
//! into whole records plus at most one torn tail and every byte is
//! attributable to exactly one write.

use serde::{Deserialize, Serialize};

#[derive(Clone, Copy, Debug, PartialEq, Eq, Hash, PartialOrd, Ord, Serialize, Deserialize)]
pub struct RecId {
    pub tid: u16,
    pub n: u16,
}

impl std::fmt::Display for RecId {
    fn fmt(&self, f: &mut std::fmt::Formatter<'_>) -> std::fmt::Result {
        write!(f, "{}.{}", self.tid, self.n)
    }
}

const TABLE: [&str; 8] = ["a", "é", "界", "😀", "z", "ß", "€", "𝄞"];

/// Payload of exactly `len` bytes, valid UTF-8, a pure function of the id.
pub fn payload(id: RecId, len: usize) -> String {
    let mut s = String::with_capacity(len);
    let flavour = (id.tid as usize + id.n as usize) % 3;
    let mut j = id.tid as usize * 31 + id.n as usize * 17;
    while s.len() < len {
        let rem = len - s.len();
        let c: &str = match flavour {
            0 => "",
            1 => TABLE[j % 2],
            _ => TABLE[j % 8],
        };
        if !c.is_empty() && c.len() <= rem {
            s.push_str(c);
        } else {
            s.push((b'a' + (j % 26) as u8) as char);
        }
        j += 1;
    }
    s
}

/// The full encoded record.
pub fn encode(id: RecId, len: usize) -> String {
    let mut s = format!("\u{2}{},{},{}\u{3}", id.tid, id.n, len);
    s.push_str(&payload(id, len));
    s
}

#[derive(Clone, Debug, PartialEq)]
pub enum Item {
    Whole { id: RecId, start: usize, end: usize },
    /// a strict prefix of a record (header possibly incomplete)
    Torn { id: Option<RecId>, start: usize, end: usize },
    Junk { start: usize, end: usize, why: String },
}

/// Splits `data[from..]` at record-start bytes and classifies every segment.
/// Payloads and headers never contain 0x02, so the split is unambiguous.
pub fn scan(data: &[u8], from: usize) -> Vec<Item> {
    let mut items = vec![];
    let mut p = from.min(data.len());
    // bytes before the first record start
    let first = data[p..].iter().position(|b| *b == 2).map(|i| p + i).unwrap_or(data.len());
    if first > p {
        items.push(Item::Junk { start: p, end: first, why: format!("byte {:#x} where a record start was expected", data[p]) });
    }
    p = first;
    while p < data.len() {
        let next = data[p + 1..].iter().position(|b| *b == 2).map(|i| p + 1 + i).unwrap_or(data.len());
        let seg = &data[p..next];
        // header
        match seg.iter().position(|b| *b == 3) {
            None => {
                if seg[1..].iter().all(|b| b.is_ascii_digit() || *b == b',') && seg.len() < 40 {
                    items.push(Item::Torn { id: None, start: p, end: next });
                } else {
                    items.push(Item::Junk { start: p, end: next, why: "malformed header".into() });
                }
            }
            Some(q) => {
                let hdr = std::str::from_utf8(&seg[1..q]).unwrap_or("?");
                let parts: Vec<&str> = hdr.split(',').collect();
                let nums: Option<Vec<usize>> = if parts.len() == 3 { parts.iter().map(|x| x.parse::<usize>().ok()).collect() } else { None };
                match nums {
                    Some(n) if n[0] <= u16::MAX as usize && n[1] <= u16::MAX as usize && n[2] < (1 << 24) => {
                        let id = RecId { tid: n[0] as u16, n: n[1] as u16 };
                        let want = payload(id, n[2]);
                        let have = &seg[q + 1..];
                        if have.len() == n[2] && have == want.as_bytes() {
                            items.push(Item::Whole { id, start: p, end: next });
                        } else if have.len() < n[2] && want.as_bytes().starts_with(have) {
                            items.push(Item::Torn { id: Some(id), start: p, end: next });
                        } else if have.len() > n[2] && &have[..n[2]] == want.as_bytes() {
                            items.push(Item::Whole { id, start: p, end: p + q + 1 + n[2] });
                            items.push(Item::Junk { start: p + q + 1 + n[2], end: next, why: "bytes after a record that do not start a record".into() });
                        } else {
                            items.push(Item::Junk { start: p, end: next, why: format!("payload of {} diverges", id) });
                        }
                    }
                    _ => items.push(Item::Junk { start: p, end: next, why: format!("bad header {:?}", hdr) }),
                }
            }
        }
        p = next;
    }
    items
}

/// Ids of the whole records in `data`, in file order.
pub fn whole_ids(data: &[u8]) -> Vec<RecId> {
    scan(data, 0)
        .into_iter()
        .filter_map(|i| match i {
            Item::Whole { id, .. } => Some(id),
            _ => None,
        })
        .collect()
}

#[derive(Clone, Debug, PartialEq)]
pub struct Parsed {
    pub recs: Vec<(RecId, usize, usize)>, // id, start, end
    /// a strict prefix of a record at the very end of the data
    pub torn: Option<(Option<RecId>, usize)>, // id if header complete, start offset
    /// first offset at which the data is not a record sequence
    pub garbage: Option<(usize, String)>,
}

/// Strict parse of `data[from..]` as whole records plus at most one torn tail.
pub fn parse(data: &[u8], from: usize) -> Parsed {
    let mut out = Parsed { recs: vec![], torn: None, garbage: None };
    let items = scan(data, from);
    let n = items.len();
    for (i, it) in items.into_iter().enumerate() {
        match it {
            Item::Whole { id, start, end } => out.recs.push((id, start, end)),
            Item::Torn { id, start, .. } if i + 1 == n => out.torn = Some((id, start)),
            Item::Torn { id, start, .. } => {
                out.garbage = Some((start, format!("torn record {:?} in the middle of the file", id)));
                return out;
            }
            Item::Junk { start, why, .. } => {
                out.garbage = Some((start, why));
                return out;
            }
        }
    }
    out
}

#[cfg(test)]
mod t {
    use super::*;
    #[test]
    fn roundtrip() {
        let mut v = vec![];
        for (i, len) in [0usize, 1, 5, 1023, 1024, 1025, 3000].iter().enumerate() {
            let id = RecId { tid: i as u16, n: (i * 3) as u16 };
            let e = encode(id, *len);
            assert_eq!(payload(id, *len).len(), *len);
            v.extend_from_slice(e.as_bytes());
        }
        let p = parse(&v, 0);
        assert_eq!(p.recs.len(), 7);
        assert!(p.torn.is_none() && p.garbage.is_none());
        let p = parse(&v[..v.len() - 10], 0);
        assert_eq!(p.recs.len(), 6);
        assert!(p.torn.is_some());
    }
}
