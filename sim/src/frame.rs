//! Self-framing log records. Every record is `0x02 tid,n,len 0x03 payload`
//! with a payload that is a pure function of (tid, n, len), so any file parses
//! into whole records plus at most one torn tail and every byte is
//! attributable to exactly one write.

use serde::{Deserialize, Serialize};

#[derive(Clone, Copy, Debug, PartialEq, Eq, Hash, PartialOrd, Ord, Serialize, Deserialize)]
pub struct RecId {
    pub tid: u16,
    pub n: u16,
}

impl std::fmt::Display for RecId {
    fn fmt(&self, f: &mut std::fmt::Formatter<'_>) -> std::fmt::Result {
        write!(f, "{}.{}", self.tid, self.n)
    }
}

const TABLE: [&str; 8] = ["a", "é", "界", "😀", "z", "ß", "€", "𝄞"];

/// Payload of exactly `len` bytes, valid UTF-8, a pure function of the id.
pub fn payload(id: RecId, len: usize) -> String {
    let mut s = String::with_capacity(len);
    let flavour = (id.tid as usize + id.n as usize) % 3;
    let mut j = id.tid as usize * 31 + id.n as usize * 17;
    while s.len() < len {
        let rem = len - s.len();
        let c: &str = match flavour {
            0 => "",
            1 => TABLE[j % 2],
            _ => TABLE[j % 8],
        };
        if !c.is_empty() && c.len() <= rem {
            s.push_str(c);
        } else {
            s.push((b'a' + (j % 26) as u8) as char);
        }
        j += 1;
    }
    s
}

/// The full encoded record.
pub fn encode(id: RecId, len: usize) -> String {
    let mut s = format!("\u{2}{},{},{}\u{3}", id.tid, id.n, len);
    s.push_str(&payload(id, len));
    s
}

#[derive(Clone, Debug, PartialEq)]
pub struct Parsed {
    pub recs: Vec<(RecId, usize, usize)>, // id, start, end
    /// a strict prefix of a record at the very end of the data
    pub torn: Option<(Option<RecId>, usize)>, // id if header complete, start offset
    /// first offset at which the data is not a record sequence
    pub garbage: Option<(usize, String)>,
}

/// Parses `data[from..]` as a sequence of whole records.
pub fn parse(data: &[u8], from: usize) -> Parsed {
    let mut out = Parsed { recs: vec![], torn: None, garbage: None };
    let mut p = from.min(data.len());
    while p < data.len() {
        let start = p;
        if data[p] != 2 {
            out.garbage = Some((p, format!("byte {:#x} where a record start was expected", data[p])));
            return out;
        }
        // header
        let mut q = p + 1;
        while q < data.len() && data[q] != 3 && q - p < 40 {
            q += 1;
        }
        if q >= data.len() {
            // header incomplete: torn if every byte so far is header-like
            if data[p + 1..].iter().all(|b| b.is_ascii_digit() || *b == b',') {
                out.torn = Some((None, start));
            } else {
                out.garbage = Some((p, "malformed header at end".into()));
            }
            return out;
        }
        if data[q] != 3 {
            out.garbage = Some((p, "unterminated header".into()));
            return out;
        }
        let hdr = match std::str::from_utf8(&data[p + 1..q]) {
            Ok(h) => h,
            Err(_) => {
                out.garbage = Some((p, "non-utf8 header".into()));
                return out;
            }
        };
        let parts: Vec<&str> = hdr.split(',').collect();
        let nums: Option<Vec<usize>> = if parts.len() == 3 {
            parts.iter().map(|x| x.parse::<usize>().ok()).collect()
        } else {
            None
        };
        let nums = match nums {
            Some(n) if n[0] <= u16::MAX as usize && n[1] <= u16::MAX as usize => n,
            _ => {
                out.garbage = Some((p, format!("bad header {:?}", hdr)));
                return out;
            }
        };
        let id = RecId { tid: nums[0] as u16, n: nums[1] as u16 };
        let len = nums[2];
        let want = payload(id, len);
        let have = &data[q + 1..];
        if have.len() < len {
            if want.as_bytes().starts_with(have) {
                out.torn = Some((Some(id), start));
            } else {
                out.garbage = Some((q + 1, format!("payload of {} diverges (short)", id)));
            }
            return out;
        }
        if &have[..len] != want.as_bytes() {
            out.garbage = Some((q + 1, format!("payload of {} diverges", id)));
            return out;
        }
        p = q + 1 + len;
        out.recs.push((id, start, p));
    }
    out
}

#[cfg(test)]
mod t {
    use super::*;
    #[test]
    fn roundtrip() {
        let mut v = vec![];
        for (i, len) in [0usize, 1, 5, 1023, 1024, 1025, 3000].iter().enumerate() {
            let id = RecId { tid: i as u16, n: (i * 3) as u16 };
            let e = encode(id, *len);
            assert_eq!(payload(id, *len).len(), *len);
            v.extend_from_slice(e.as_bytes());
        }
        let p = parse(&v, 0);
        assert_eq!(p.recs.len(), 7);
        assert!(p.torn.is_none() && p.garbage.is_none());
        let p = parse(&v[..v.len() - 10], 0);
        assert_eq!(p.recs.len(), 6);
        assert!(p.torn.is_some());
    }
}
