//! Register linearizability (Appendix E of DESIGN.md): Wing–Gong search with
//! memoisation over (set of linearised operations, current value).

use std::collections::HashSet;

#[derive(Clone, Debug)]
pub enum Kind {
    /// set_config(v)
    Write(u32),
    /// a log call whose outcome is consistent with exactly these versions
    Read(Vec<u32>),
}

#[derive(Clone, Debug)]
pub struct Op {
    pub kind: Kind,
    pub invoke: u64,
    pub ret: u64,
    pub label: String,
}

/// Returns None if linearizable, else a description of the failure.
pub fn check(ops: &[Op], initial: u32) -> Option<String> {
    let n = ops.len();
    if n > 40 {
        return None; // bounded: callers keep histories short
    }
    let full: u64 = if n == 64 { u64::MAX } else { (1u64 << n) - 1 };
    let mut seen: HashSet<(u64, u32)> = HashSet::new();
    let mut stack: Vec<(u64, u32)> = vec![(0, initial)];
    while let Some((done, val)) = stack.pop() {
        if done == full {
            return None;
        }
        if !seen.insert((done, val)) {
            continue;
        }
        // minimal ops: not done, and no other not-done op returned before its invocation
        let mut min_ret = u64::MAX;
        for (i, o) in ops.iter().enumerate() {
            if done & (1 << i) == 0 && o.ret < min_ret {
                min_ret = o.ret;
            }
        }
        for (i, o) in ops.iter().enumerate() {
            if done & (1 << i) != 0 {
                continue;
            }
            if o.invoke > min_ret {
                continue;
            }
            match &o.kind {
                Kind::Write(v) => stack.push((done | (1 << i), *v)),
                Kind::Read(s) => {
                    if s.contains(&val) {
                        stack.push((done | (1 << i), val));
                    }
                }
            }
        }
    }
    let mut d = String::new();
    let mut sorted: Vec<&Op> = ops.iter().collect();
    sorted.sort_by_key(|o| o.invoke);
    for o in sorted {
        d.push_str(&format!("[{}..{}] {} ", o.invoke, o.ret, o.label));
    }
    Some(d)
}

#[cfg(test)]
mod t {
    use super::*;
    fn w(v: u32, a: u64, b: u64) -> Op {
        Op { kind: Kind::Write(v), invoke: a, ret: b, label: format!("W{}", v) }
    }
    fn r(s: &[u32], a: u64, b: u64) -> Op {
        Op { kind: Kind::Read(s.to_vec()), invoke: a, ret: b, label: format!("R{:?}", s) }
    }
    #[test]
    fn basic() {
        assert!(check(&[w(1, 1, 2), r(&[1], 3, 4)], 0).is_none());
        assert!(check(&[w(1, 1, 2), r(&[0], 3, 4)], 0).is_some());
        assert!(check(&[w(1, 1, 5), r(&[0], 2, 3), r(&[1], 4, 6)], 0).is_none());
        assert!(check(&[w(1, 1, 5), r(&[1], 2, 3), r(&[0], 4, 6)], 0).is_some());
        // nested write inside a read
        assert!(check(&[r(&[0], 1, 6), w(1, 2, 3), r(&[1], 7, 8)], 0).is_none());
    }
}
