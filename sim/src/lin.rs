//! Register linearizability (Appendix E of DESIGN.md): Wing–Gong search with
//! memoisation over (set of linearised operations, current value).

use std::collections::HashSet;

#[derive(Clone, Debug)]
pub enum Kind {
    /// set_config(v)
    Write(u32),
    /// a log call whose outcome is consistent with exactly these versions
    Read(Vec<u32>),
}

#[derive(Clone, Debug)]
pub struct Op {
    pub kind: Kind,
    pub invoke: u64,
    pub ret: u64,
    pub label: String,
}

/// Returns None if linearizable, else a description of the failure.
pub fn check(ops: &[Op], initial: u32) -> Option<String> {
    let n = ops.len();
    if n > 40 {
        return None; // bounded: callers keep histories short
    }
    let full: u64 = if n == 64 { u64::MAX } else { (1u64 << n) - 1 };
    let mut seen: HashSet<(u64, u32)> = HashSet::new();
    let mut stack: Vec<(u64, u32)> = vec![(0, initial)];
    while let Some((done, val)) = stack.pop() {
        if done == full {
            return None;
        }
        if !seen.insert((done, val)) {
            continue;
        }
        // minimal ops: not done, and no other not-done op returned before its invocation
        let mut min_ret = u64::MAX;
        for (i, o) in ops.iter().enumerate() {
            if done & (1 << i) == 0 && o.ret < min_ret {
                min_ret = o.ret;
            }
        }
        for (i, o) in ops.iter().enumerate() {
            if done & (1 << i) != 0 {
                continue;
            }
            if o.invoke > min_ret {
                continue;
            }
            match &o.kind {
                Kind::Write(v) => stack.push((done | (1 << i), *v)),
                Kind::Read(s) => {
                    if s.contains(&val) {
                        stack.push((done | (1 << i), val));
                    }
                }
            }
        }
    }
    let mut d = String::new();
    let mut sorted: Vec<&Op> = ops.iter().collect();
    sorted.sort_by_key(|o| o.invoke);
    for o in sorted {
        d.push_str(&format!("[{}..{}] {} ", o.invoke, o.ret, o.label));
    }
    Some(d)
}

/// Regular-register check — exactly what C15 / C02 state: every read returns
/// the value of a write that does not strictly follow it and that is not
/// overwritten by another write lying entirely between that write and the
/// read ("old or new while a swap is in flight, only the new one after it
/// returned"). Returns a description of the first offending read.
pub fn check_regular(ops: &[Op], initial: u32) -> Option<String> {
    let writes: Vec<(u32, u64, u64)> = std::iter::once((initial, 0u64, 0u64))
        .chain(ops.iter().filter_map(|o| if let Kind::Write(v) = &o.kind { Some((*v, o.invoke, o.ret)) } else { None }))
        .collect();
    for r in ops {
        if let Kind::Read(acc) = &r.kind {
            let ok = writes.iter().any(|(v, winv, wret)| {
                acc.contains(v)
                    && *winv < r.ret
                    && !writes.iter().any(|(_, i2, r2)| *i2 > *wret && *r2 < r.invoke)
            });
            if !ok {
                let mut d = format!("read {} [{}..{}] cannot be explained by the configuration before it or by a swap in flight; writes:", r.label, r.invoke, r.ret);
                for (v, i, e) in &writes {
                    d.push_str(&format!(" v{}[{}..{}]", v, i, e));
                }
                return Some(d);
            }
        }
    }
    None
}

#[cfg(test)]
mod t {
    use super::*;
    fn w(v: u32, a: u64, b: u64) -> Op {
        Op { kind: Kind::Write(v), invoke: a, ret: b, label: format!("W{}", v) }
    }
    fn r(s: &[u32], a: u64, b: u64) -> Op {
        Op { kind: Kind::Read(s.to_vec()), invoke: a, ret: b, label: format!("R{:?}", s) }
    }
    #[test]
    fn basic() {
        assert!(check(&[w(1, 1, 2), r(&[1], 3, 4)], 0).is_none());
        assert!(check(&[w(1, 1, 2), r(&[0], 3, 4)], 0).is_some());
        assert!(check(&[w(1, 1, 5), r(&[0], 2, 3), r(&[1], 4, 6)], 0).is_none());
        assert!(check(&[w(1, 1, 5), r(&[1], 2, 3), r(&[0], 4, 6)], 0).is_some());
        // nested write inside a read
        assert!(check(&[r(&[0], 1, 6), w(1, 2, 3), r(&[1], 7, 8)], 0).is_none());
        // regular but not linearizable: new then old while the write is in flight
        let h = [w(1, 1, 10), r(&[1], 2, 3), r(&[0], 4, 5)];
        assert!(check(&h, 0).is_some());
        assert!(check_regular(&h, 0).is_none());
        // stale read after the write returned
        assert!(check_regular(&[w(1, 1, 2), r(&[0], 3, 4)], 0).is_some());
        // overwritten value
        assert!(check_regular(&[w(1, 1, 2), w(2, 3, 4), r(&[1], 5, 6)], 0).is_some());
    }
}
