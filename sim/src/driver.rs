//! Check driver: fans runs out to worker processes, gathers results, replays
//! and minimises failures, matches known findings and writes evidence.

use std::{
    collections::{BTreeMap, BTreeSet},
    fs,
    io::Write,
    path::{Path, PathBuf},
    process::{Command, Stdio},
};

use serde::{Deserialize, Serialize};
use serde_json::json;

use crate::{
    clock, kernel,
    rng::mix,
    worlds::{self, ExecOpts, Scenario},
    Outcome, Sched, Tier, Violation,
};

pub const DEFAULT_SEED: u64 = 20261003;

pub struct PropCfg {
    pub id: &'static str,
    /// (profile, share) — run i uses the profile chosen by i modulo the total share
    pub profiles: &'static [(&'static str, u32)],
    pub quick_runs: u64,
    pub thorough_runs: u64,
    pub level: &'static str,
    pub rule: &'static str,
    pub assumptions: &'static [&'static str],
    pub real: &'static [&'static str],
    pub stub: &'static [&'static str],
}

const R_REAL: &[&str] = &["log4rs RollingFileAppender", "CompoundPolicy", "SizeTrigger / TimeTrigger / OnStartUpTrigger", "FixedWindowRoller / DeleteRoller (rotate, move_file incl. real EXDEV copy+delete on a second mount)", "parking_lot::Mutex", "chrono Local (POSIX TZ rules)", "kernel tmpfs + second filesystem"];
const R_STUB: &[&str] = &["transparent probes around the real trigger, roller and encoder (record what was consulted, never alter it)", "ScriptTrigger (user-defined pre/post trigger)", "ChunkEncoder in half of the runs", "wall clock (interposed clock_gettime)", "TimeTrigger's random delay (rand_below hook)", "thread scheduler (baton)"];

pub fn props() -> Vec<PropCfg> {
    vec![
        PropCfg {
            id: "C02",
            profiles: &[("C02", 1)],
            quick_runs: 6000,
            thorough_runs: 100000,
            level: "exploration",
            rule: "one case = one process: the global logger is initialised once through a seeded path (init_config, init_config_with_err_handler, init_raw_config with real file appenders, init_file with a custom appender kind) and a seeded configuration, then 1-12 histories run in it: one thread reconfigures through the Handle (levels going up and down) and logs, 0-2 threads log concurrently, all records go through the log macros; after initialisation and after every set_config return log::max_level() and log::logger().enabled() over 16 targets x 5 levels are compared with the model, every record's deliveries with the routing model, every history with register linearizability; non-trivial = the case contains at least one reconfiguration or initialises from a file format; distinct = distinct event-log fingerprints",
            assumptions: &["one reconfiguring thread per history (the property quantifies over sequences of reconfigurations)", "init_raw_config / init_file give no Handle, so those processes only check the initial configuration", "each case costs a process start, so the quick tier is small"],
            real: &["log facade (macros, global max level, set_boxed_logger)", "log4rs::init_config / init_config_with_err_handler / init_raw_config / init_file", "Handle::set_config", "Logger::enabled / log", "FileAppender + PatternEncoder (init_raw_config path)"],
            stub: &["version-tagged capturing appenders and scripted filters", "thread scheduler (baton)"],
        },
        PropCfg {
            id: "C03",
            profiles: &[("C03", 4), ("C03-file", 1)],
            quick_runs: 200000,
            thorough_runs: 4000000,
            level: "exploration",
            rule: "one case = one seeded logger configuration (1-4 appenders with chains of scripted Accept/Neutral/Reject filters and real ThresholdFilters, per-call failing appenders, loggers over nested / look-alike names, duplicate attachments) and 1-3 threads logging records over 16 targets x 5 levels through the real Logger under one seeded schedule; after every log call the filters consulted, the deliveries and the errors handed to the error handler are compared with the per-attachment model; non-trivial = at least one appender error or one filter short-circuit (Accept/Reject) occurred; distinct = distinct event-log fingerprints",
            assumptions: &["profile C03-file (1/5 of the cases) writes the configuration as a YAML file with custom `cap` / `script` kinds and some appenders of an unknown kind that carry valid filters, loads it with load_config_file (lossy) and expects exactly the configuration without those appenders", "filter responses and appender failures are pure functions of (stub, record), hence independent of the interleaving", "half of the capturing appenders render every delivery with the real PatternEncoder (six patterns with right/left alignment, truncation, a group; m <= M) into their own writer, which fails 0-13 bytes into the record for failing deliveries; successful deliveries are compared byte for byte with a reference renderer", "a quarter of the cases use an error handler that itself logs a record for every error of a top-level record; the nested record is judged like any other", "no reconfiguration in this profile (Handle::set_config installs the default stderr handler, so the configured handler is only observable before the first swap)"],
            real: &["log4rs::Logger (ArcSwap snapshot, ConfiguredLogger tree, Appender::append filter loop, error collection and hand-off)", "ThresholdFilter", "Config builder"],
            stub: &["capturing appenders (optionally failing per call)", "scripted filters", "capturing error handler", "thread scheduler (baton)"],
        },
        PropCfg {
            id: "C10",
            profiles: &[("C10", 14), ("C10-hard", 2), ("C10-seq", 1)],
            quick_runs: 1000000,
            thorough_runs: 10000000,
            level: "exploration",
            rule: "one case = one seeded pattern tree (formatters m/l/t with fill/alignment/min/max specs, fills over multi-byte and syntax characters, nested groups up to depth 3, m <= M), a message built from 1-4 Display pieces over 1-4-byte scalars and combining marks, and a downstream writer that accepts a scripted 1..len bytes per call (may stop inside a character) and answers Interrupted on scripted calls; output compared with the character-exact truncate-then-pad specification; profile C10-hard makes the writer fail for good and only asserts no panic; profile C10-seq (1/17 of the cases, each on a fresh thread) runs 1-2 encodes into a failing writer before the judged one on the same thread (no state may leak from a failed record into the next); non-trivial = at least one short write or interruption happened; distinct = distinct fingerprints of (pattern, message, accepted sizes, output)",
            assumptions: &["the fault is injected at the encode::Write trait seam; no threads or clock are involved in this property"],
            real: &["PatternEncoder (parser, Chunk::encode, MaxWidthWriter, LeftAlignWriter, RightAlignWriter)", "std write_all / write_fmt retry loops"],
            stub: &["downstream encode::Write (short-writing, interrupting, failing)"],
        },
        PropCfg {
            id: "C15",
            profiles: &[("C15", 3), ("C15-reload", 1)],
            quick_runs: 60000,
            thorough_runs: 1000000,
            level: "exploration",
            rule: "one case = 2-5 seeded configuration versions with version-tagged stubs, 1-3 logging threads and 1-3 reconfiguring threads (plus appenders that call set_config or log re-entrantly on selected records) on the real Logger/Handle under one seeded schedule with decision points between snapshot load, fan-out, set_max_level and store; per record: no mixture of versions and exact routing under its version; per history: register linearizability (Wing-Gong with memoisation, <= 16 reads / <= 9 writes); no panic, no deadlock; non-trivial = a swap overlapped a log call in time; distinct = distinct event-log fingerprints",
            assumptions: &["interleavings at hook/seam granularity (log.loaded, find, set_config.built, set_config.stored, every stub entry)", "reloader profile: edits live at xx.5 s, polls on whole seconds; WriteTwice steps put a second save on a whole second, where the schedule decides whether it precedes the poll, falls between the reloader's read and its store, or follows; edits are ordered against polls by the kernel's wake log, not by simulated time alone", "ArcSwap itself runs for real but only one thread at a time executes"],
            real: &["log4rs::Logger / Handle::set_config / SharedLogger::new", "arc_swap::ArcSwap", "ConfigReloader::run (reloader profile)"],
            stub: &["version-tagged capturing appenders and filters", "thread scheduler (baton)"],
        },
        PropCfg {
            id: "C04",
            profiles: &[("C04", 50), ("C04-encfail", 20), ("C04-stock", 20), ("C04-quota", 10), ("C04-scale", 3)],
            quick_runs: 60000,
            thorough_runs: 1000000,
            level: "exploration",
            rule: "one case = one seeded scenario (pre-existing file, open modes, 1-4 threads x records sized around the 1 KiB buffer, up to 3 restart phases, encoder kind) executed under one seeded schedule; non-trivial = at least two append calls overlapped in time (a thread was switched out between invoke and return of its append while another invoked); distinct = distinct event-log fingerprints (FNV-1a over every decision, invoke/return and fault event)",
            assumptions: &[
                "crash model: none (C04 quantifies over schedules and restarts only); profile C04-encfail (2/10 of the cases) additionally makes the harness encoder fail part-way on selected records: fragments of those unacknowledged records are tolerated anywhere, everything else stays strict",
                "profile C04-stock (2/10): stock encoders only (JSON, {m}); the same threads also use an appender whose file is /dev/full (every write fails) and a second healthy appender on another path whose file tolerates no fragment at all",
                "profile C04-quota (1/10): one writer, RLIMIT_FSIZE set inside selected records (short write, then EFBIG; SIGXFSZ ignored), encoder failures in between; result and file content are compared after every append with a byte-exact reference model of BufWriter<File> (1 KiB) over a size-limited file",
                "the filesystem is the kernel's tmpfs; reads through a second handle see what write(2) has delivered",
                "thread interleavings are explored at hook/seam granularity (before the lock, between encoder chunks, between encode and flush, at return), not at instruction granularity",
            ],
            real: &["log4rs::append::file::FileAppender", "SimpleWriter<BufWriter<File>>", "parking_lot::Mutex", "PatternEncoder({m}) in 1/3 of runs", "JsonEncoder (profile C04-stock)", "kernel tmpfs, /dev/full, RLIMIT_FSIZE"],
            stub: &["ChunkEncoder (harness Encode impl with decision points between write calls) in 2/3 of runs", "thread scheduler (baton)"],
        },
        PropCfg {
            id: "C05",
            profiles: &[("C05", 660), ("C05-encfail", 120), ("C05-fault", 20), ("C05-scale", 7)],
            quick_runs: 40000,
            thorough_runs: 600000,
            level: "exploration",
            rule: "one case = one seeded history (pre-existing active file/archives/bystanders, trigger in {size,time,on-start-up,scripted pre/post}, roller in {delete, fixed window base/count/pattern incl. second mount}, 1-3 writer threads, clean/dirty restarts in either mode) under one seeded schedule, compared byte-for-byte with the directory model after every append; non-trivial = at least one rotation completed; distinct = distinct event-log fingerprints",
            assumptions: &["profile C05-fault (1/40 of the histories) re-executes its history once per rotation-step site with an error or crash image there, as C08 does: acknowledged records lost after a failed rotation contradict C05 as well; the other profiles inject no filesystem fault; profile C05-encfail (6/40 of the histories) makes the harness encoder fail part-way on selected records: the bytes it had written stay in the appender's buffer and are modelled exactly (they reach the file with the next flush, rotation or clean close), nothing acknowledged may be damaged", "dirty restarts happen only while no append is in flight", "interleavings at hook/seam granularity", "in one history of six the whole archive directory is removed from outside between bursts of records or between lifetimes (Purge phases, also in C06/C16/C17 histories): the model forgets the window and its records, rotation must recreate what it needs"],
            real: R_REAL,
            stub: R_STUB,
        },
        PropCfg {
            id: "C06",
            profiles: &[("C06", 700), ("C06-encfail", 80), ("C06-fault", 20), ("C06-scale", 7)],
            quick_runs: 40000,
            thorough_runs: 400000,
            level: "exploration",
            rule: "world R restricted to the real SizeTrigger; record lengths are aimed at limit-1/limit/limit+1 of the running file size; at every consultation the size shown to the policy is compared with fs::metadata, and after every append rotation-iff-over-limit is checked against the byte model; non-trivial = at least one rotation completed; distinct = distinct event-log fingerprints",
            assumptions: &["profile C06 (35/40 of the histories) injects no fault; profile C06-encfail (4/40) makes the harness encoder fail part-way on selected records (the bytes it wrote stay in the buffer and count); profile C06-fault (1/40) re-executes its history once per rotation-step site with an error or a crash image there (as C08 does) and keeps judging the size shown to the policy after the failed rotation", "size aiming is exact for single-writer phases and approximate under concurrency"],
            real: R_REAL,
            stub: R_STUB,
        },
        PropCfg {
            id: "C07",
            profiles: &[("C07", 28), ("C05", 9), ("C07-obst", 2), ("C07-fault", 1)],
            quick_runs: 80000,
            thorough_runs: 1000000,
            level: "exploration",
            rule: "profile C07 (3/4 of the cases): direct Roll::roll calls of the real FixedWindowRoller / DeleteRoller, 1-12 successive rolls over generated trees (pre-existing archives inside, beyond and below the window, gaps, look-alike bystanders; patterns with the index in the file name, in a directory, repeated, under $ENV, on a second mount), whole tree compared with the window model after every roll; profile C05 (1/4): the same roller invariants observed inside full rolling-appender histories; non-trivial = at least one roll completed; distinct = distinct event-log fingerprints",
            assumptions: &["profiles C07 and C05 inject no fault; profile C07-obst (2/40) puts a non-empty directory at an archive name before one roll: if that roll fails nothing that still fits the window may be lost, if it succeeds the tree must match the model; profile C07-fault (1/40 of the histories) re-executes its history once per rotation-step site with an error injected there (plus sampled two-fault variants), retries the failed roll until no further injected fault fires and judges the rolls that follow (the retained window after a failed roll is whatever it left on disk); in one history of eight the whole archive directory is removed from outside before one of the rolls", "gzip patterns only in the thorough tier (gzip build); zstd not exercised"],
            real: &["FixedWindowRoller::roll / rotate / move_file (incl. real EXDEV copy+delete on a second mount)", "DeleteRoller", "expand_env_vars", "kernel tmpfs + second filesystem"],
            stub: &["none for profile C07 (the roller is called directly); profile C05 as in world R"],
        },
        PropCfg {
            id: "C08",
            profiles: &[("C08", 30), ("C08-obst", 10), ("C08-streak", 1)],
            quick_runs: 1500,
            thorough_runs: 30000,
            level: "fault_enumeration",
            rule: "one history = one seeded world-R scenario (both open modes, pre/post triggers, window sizes, 1-3 writers); profile C08 executes it fault-free, records every occurrence of a rotation-step site (each archive shift, the final move/compress sub-steps, delete, reopen) and re-executes it once per occurrence with an error injected there and once with a crash image taken there (exhaustive per history; evaluations counts all executions); profile C08-obst makes a step fail with its real errno by placing a non-empty directory at an archive name; every faulted execution ends with the bounded-liveness epilogue (same appender, and a fresh appender over the crash image); non-trivial = a fault or crash actually fired; distinct = distinct event-log fingerprints",
            assumptions: &[
                "crash model is process death: user-space buffers are lost, everything handed to write(2)/rename(2) survives (log4rs never fsyncs; power loss is out of scope)",
                "faults are injected before a step has any effect (hook) or arise from the real filesystem (obstacles, second mount); a failure in the middle of fs::copy(..).and_then(remove) is not injectable",
                "background_rotation is excluded (its errors are only printed)",
                "fault sequences: besides one variant per site occurrence, up to four sampled two-fault variants per history (the failed step fails again at its next occurrence; the re-open after the failed rotation fails; a later step fails; the process dies during the retry); a third of the histories drive the appender through a real log4rs::Logger with the default error handler, a third run with stdout and stderr pointing at /dev/full",
            ],
            real: R_REAL,
            stub: R_STUB,
        },
        PropCfg {
            id: "C16",
            profiles: &[("C16", 65), ("C16-huge", 10), ("C16-encfail", 4), ("C16-fault", 1)],
            quick_runs: 60000,
            thorough_runs: 1000000,
            level: "exploration",
            rule: "world R with the real TimeTrigger on the simulated wall clock: 8 POSIX TZ rules (fixed offsets and DST incl. 30-minute and local-midnight transitions) x 7 units x multipliers x modulate x random-delay bound; start instants and clock moves biased to scheduled-1s/scheduled/+1s, unit boundaries, leap day, month/year/ISO-week-year ends, DST gaps and overlaps, backward jumps; every (re)schedule is checked against the calendar oracle; non-trivial = the trigger fired at least once; distinct = distinct event-log fingerprints; profile C16-huge only asserts the no-panic clause for multipliers up to i64::MAX",
            assumptions: &["chrono's UTC->local conversion and naive calendar arithmetic are trusted (the oracle never maps local->UTC through the zone)", "the boundary equation is asserted only when the zone offset is identical over the whole span from start-of-unit to the scheduled instant", "profile C16-encfail (4/80) makes the harness encoder fail part-way, preferably on the first record after a clock move", "profile C16-fault (1/80 of the histories) re-executes its history once per rotation-step site with an error or crash image there: the trigger must still be consulted on every record after a failed rotation"],
            real: R_REAL,
            stub: R_STUB,
        },
        PropCfg {
            id: "C17",
            profiles: &[("C17", 700), ("C17-encfail", 80), ("C17-fault", 20), ("C17-scale", 7)],
            quick_runs: 40000,
            thorough_runs: 600000,
            level: "exploration",
            rule: "world R restricted to the real OnStartUpTrigger: pre-existing sizes around min_size (incl. 0 and min_size 0), 1-4 threads racing for the first append, restarts re-arming the trigger; non-trivial = a rotation happened or the first appends overlapped; distinct = distinct event-log fingerprints",
            assumptions: &["profile C17 (35/40 of the histories) injects no fault; profile C17-encfail (4/40) makes the harness encoder fail part-way, preferably on the first record of a lifetime; profile C17-fault (1/40) re-executes its history once per rotation-step site with an error or a crash image there and keeps judging at-most-once after a failed start-up rotation"],
            real: R_REAL,
            stub: R_STUB,
        },
    ]
}

pub fn prop(id: &str) -> Option<PropCfg> {
    props().into_iter().find(|p| p.id == id)
}

fn profile_for(cfg: &PropCfg, index: u64) -> &'static str {
    let total: u32 = cfg.profiles.iter().map(|p| p.1).sum();
    let mut r = (index % total as u64) as u32;
    for (name, share) in cfg.profiles {
        if r < *share {
            return name;
        }
        r -= share;
    }
    cfg.profiles[0].0
}

fn stream_id(profile: &str) -> u64 {
    let mut h = crate::rng::Fnv::default();
    h.write(profile.as_bytes());
    h.0
}

pub fn run_seed(root: u64, profile: &str, index: u64) -> u64 {
    mix(root, stream_id(profile), index)
}

#[derive(Clone, Debug, Serialize, Deserialize)]
pub struct Replay {
    pub format: u32,
    pub property: String,
    pub profile: String,
    pub tier: Tier,
    pub root_seed: u64,
    pub index: u64,
    pub seed: u64,
    pub scenario: Scenario,
    pub decisions: Vec<u32>,
    pub violation: Violation,
    pub events_hash: u64,
    pub minimised: bool,
    pub original_size: BTreeMap<String, u64>,
    /// feature set of the simulator build that produced the file
    #[serde(default)]
    pub build: String,
}

pub fn build_flavour() -> &'static str {
    if cfg!(feature = "background_rotation") {
        "background_rotation"
    } else if cfg!(feature = "gzip") {
        "gzip"
    } else {
        "default"
    }
}

#[derive(Default, Serialize, Deserialize)]
pub struct WorkerSummary {
    pub runs: u64,
    pub nontrivial_hashes: Vec<u64>,
    pub all_hashes_distinct: u64,
    pub hashes: Vec<u64>,
    pub violations: u64,
    pub violation_files: Vec<String>,
    pub harness_errors: Vec<String>,
    pub decisions: u64,
    pub switches: u64,
    pub sim_ns: i128,
    pub probes: BTreeMap<String, u64>,
    pub faults: BTreeMap<String, u64>,
    pub samples: Vec<serde_json::Value>,
    pub wall_s: f64,
    #[serde(default)]
    pub histories: u64,
    #[serde(default)]
    pub fault_points: u64,
    /// executions per generator profile
    #[serde(default)]
    pub per_profile: BTreeMap<String, u64>,
}

#[derive(Serialize, Deserialize, Default)]
pub struct OutcomeLite {
    pub violations: Vec<Violation>,
    pub harness_error: Option<String>,
    pub events_hash: u64,
    pub decisions: Vec<u32>,
    pub nontrivial: bool,
    pub sim_ns: i64,
    pub probes: BTreeMap<String, u64>,
    pub switches: u64,
    pub steps: u64,
    pub list_fallbacks: u64,
    pub trace: Option<Vec<String>>,
}

#[derive(Serialize, Deserialize)]
pub struct RunOneInput {
    pub scenario: Scenario,
    pub sched: Option<Sched>,
    pub trace: bool,
}

pub fn to_lite(o: &Outcome) -> OutcomeLite {
    OutcomeLite {
        violations: o.violations.clone(),
        harness_error: o.harness_error.clone(),
        events_hash: o.summary.events_hash,
        decisions: o.summary.decisions.clone(),
        nontrivial: o.nontrivial,
        sim_ns: o.sim_ns,
        probes: o.probes.clone(),
        switches: o.summary.switches,
        steps: o.summary.steps,
        list_fallbacks: o.summary.list_fallbacks,
        trace: o.summary.trace.clone(),
    }
}

static ISOLATED_SEQ: std::sync::atomic::AtomicU64 = std::sync::atomic::AtomicU64::new(0);

/// Executes a scenario, in a process of its own when it needs one.
pub fn exec(scn: &Scenario, opts: &ExecOpts) -> Outcome {
    if !worlds::needs_fresh_process(scn) {
        return worlds::execute(scn, opts);
    }
    let dir = crate::fsutil::scratch_base().join("iso");
    let _ = fs::create_dir_all(&dir);
    let n = ISOLATED_SEQ.fetch_add(1, std::sync::atomic::Ordering::SeqCst);
    let inp = dir.join(format!("in{}.json", n));
    let outp = dir.join(format!("out{}.json", n));
    let input = RunOneInput { scenario: scn.clone(), sched: opts.sched.clone(), trace: opts.trace };
    fs::write(&inp, serde_json::to_vec(&input).unwrap()).unwrap();
    let exe = std::env::current_exe().expect("current_exe");
    let st = Command::new(exe).arg("run-one").arg(&inp).arg(&outp).stdin(Stdio::null()).stdout(Stdio::null()).stderr(Stdio::null()).status();
    let mut out = Outcome::default();
    match fs::read(&outp).ok().and_then(|b| serde_json::from_slice::<OutcomeLite>(&b).ok()) {
        Some(l) => {
            out.violations = l.violations;
            out.harness_error = l.harness_error;
            out.summary.events_hash = l.events_hash;
            out.summary.decisions = l.decisions;
            out.summary.switches = l.switches;
            out.summary.steps = l.steps;
            out.summary.list_fallbacks = l.list_fallbacks;
            out.summary.trace = l.trace;
            out.nontrivial = l.nontrivial;
            out.sim_ns = l.sim_ns;
            out.probes = l.probes;
        }
        None => out.harness_error = Some(format!("isolated execution produced no result (status {:?})", st.map(|s| s.code()))),
    }
    let _ = fs::remove_file(&inp);
    let _ = fs::remove_file(&outp);
    out
}

fn relevant<'a>(prop: &str, out: &'a Outcome) -> Option<&'a Violation> {
    out.violations.iter().find(|v| v.property == prop)
}

/// Runs indices [from, to) of a check inside this process.
pub fn worker(prop_id: &str, tier: Tier, root: u64, from: u64, to: u64, outdir: &Path, emit_hashes: bool) -> WorkerSummary {
    let cfg = prop(prop_id).expect("unknown property");
    let t0 = clock::mono_s();
    let mut sum = WorkerSummary::default();
    let mut nontrivial = BTreeSet::new();
    let mut all = BTreeSet::new();
    for index in from..to {
        let profile = profile_for(&cfg, index);
        let seed = run_seed(root, profile, index);
        let scn0 = worlds::generate(profile, tier, seed);
        let out0 = exec(&scn0, &ExecOpts::default());
        let vars = if out0.harness_error.is_none() { worlds::variants(profile, &scn0, &out0) } else { vec![] };
        if !vars.is_empty() {
            sum.histories += 1;
            sum.fault_points += vars.len() as u64;
        }
        let mut todo: Vec<(Scenario, Option<Outcome>)> = vec![(scn0, Some(out0))];
        todo.extend(vars.into_iter().map(|v| (v, None)));
        let mut stalled = false;
        for (vi, (scn, pre)) in todo.into_iter().enumerate() {
        let out = match pre {
            Some(o) => o,
            None => exec(&scn, &ExecOpts::default()),
        };
        sum.runs += 1;
        *sum.per_profile.entry(profile.to_string()).or_insert(0) += 1;
        sum.decisions += out.summary.decisions.len() as u64;
        sum.switches += out.summary.switches;
        sum.sim_ns += out.sim_ns as i128;
        for (k, v) in &out.probes {
            *sum.probes.entry(k.clone()).or_insert(0) += v;
        }
        for f in &out.summary.faults_fired {
            *sum.faults.entry(format!("{}:errno{}", f.site, f.errno)).or_insert(0) += 1;
        }
        if out.summary.crash_fired {
            *sum.faults.entry("crash-image".into()).or_insert(0) += 1;
        }
        all.insert(out.summary.events_hash);
        if emit_hashes {
            sum.hashes.push(out.summary.events_hash);
        }
        if out.nontrivial {
            nontrivial.insert(out.summary.events_hash);
        }
        if sum.samples.len() < 2 && out.nontrivial {
            sum.samples.push(json!({"profile": profile, "index": index, "seed": seed, "scenario": scn, "decisions": out.summary.decisions.len(), "events_hash": out.summary.events_hash}));
        }
        if let Some(e) = &out.harness_error {
            if sum.harness_errors.len() < 5 {
                sum.harness_errors.push(format!("index {} seed {}: {}", index, seed, e));
            }
            if e.starts_with("STALL") {
                // threads of that run are still parked: this process is no longer clean
                stalled = true;
                break;
            }
            continue;
        }
        if let Some(v) = relevant(prop_id, &out) {
            sum.violations += 1;
            if sum.violation_files.len() < 4 {
                let rp = Replay {
                    format: 1,
                    property: prop_id.into(),
                    profile: profile.into(),
                    tier,
                    root_seed: root,
                    index,
                    seed,
                    scenario: scn.clone(),
                    decisions: out.summary.decisions.clone(),
                    violation: v.clone(),
                    events_hash: out.summary.events_hash,
                    minimised: false,
                    original_size: BTreeMap::new(),
                    build: build_flavour().to_string(),
                };
                let p = outdir.join(format!("raw-{}-{}-{}.json", prop_id, seed, vi));
                fs::write(&p, serde_json::to_vec_pretty(&rp).unwrap()).unwrap();
                sum.violation_files.push(p.to_string_lossy().to_string());
            }
        }
        }
        if stalled {
            break;
        }
    }
    sum.nontrivial_hashes = nontrivial.into_iter().collect();
    sum.all_hashes_distinct = all.len() as u64;
    sum.wall_s = clock::mono_s() - t0;
    sum
}

pub fn load_replay(p: &Path) -> Result<Replay, String> {
    let b = fs::read(p).map_err(|e| format!("{}: {}", p.display(), e))?;
    serde_json::from_slice(&b).map_err(|e| format!("{}: {}", p.display(), e))
}

/// Re-executes a replay file. Ok(Some(v)) = the violation reproduced.
pub fn replay(rp: &Replay, trace: bool) -> (Option<Violation>, Outcome) {
    let out = exec(&rp.scenario, &ExecOpts { sched: Some(Sched::List(rp.decisions.clone())), trace });
    let v = out
        .violations
        .iter()
        .find(|v| v.property == rp.property && v.invariant == rp.violation.invariant)
        .cloned();
    (v, out)
}

fn fails_same(rp: &Replay, scn: &Scenario, sched: Sched) -> Option<(Violation, Vec<u32>, u64)> {
    let out = exec(scn, &ExecOpts { sched: Some(sched), trace: false });
    if out.harness_error.is_some() {
        return None;
    }
    out.violations
        .iter()
        .find(|v| v.property == rp.property && v.invariant == rp.violation.invariant && v.signature == rp.violation.signature)
        .cloned()
        .map(|v| (v, out.summary.decisions.clone(), out.summary.events_hash))
}

/// Shrinks scenario and schedule while the same invariant keeps failing.
pub fn minimise(rp: &Replay, budget: u32) -> Replay {
    let mut cur = rp.clone();
    let mut budget = budget as i64;
    let mut orig = BTreeMap::new();
    orig.insert("scenario_size".to_string(), worlds::size(&rp.scenario) as u64);
    orig.insert("decisions".to_string(), rp.decisions.len() as u64);
    let mut progress = true;
    while progress && budget > 0 {
        progress = false;
        for cand in worlds::shrink(&cur.scenario) {
            if budget <= 0 {
                break;
            }
            if worlds::size(&cand) > worlds::size(&cur.scenario) {
                continue;
            }
            budget -= 1;
            let mut hit = fails_same(&cur, &cand, Sched::List(cur.decisions.clone()));
            if hit.is_none() {
                budget -= 1;
                hit = fails_same(&cur, &cand, Sched::List(vec![]));
            }
            if let Some((v, dec, h)) = hit {
                cur.scenario = cand;
                cur.decisions = dec;
                cur.violation = v;
                cur.events_hash = h;
                progress = true;
                break;
            }
        }
    }
    // schedule simplification: replace context switches by "stay"
    let mut i = 1;
    while i < cur.decisions.len() && budget > 0 {
        if cur.decisions[i] != cur.decisions[i - 1] {
            let mut d = cur.decisions.clone();
            d[i] = d[i - 1];
            budget -= 1;
            if let Some((v, dec, h)) = fails_same(&cur, &cur.scenario.clone(), Sched::List(d)) {
                let switches = |x: &Vec<u32>| x.windows(2).filter(|w| w[0] != w[1]).count();
                if dec.len() <= cur.decisions.len() && switches(&dec) < switches(&cur.decisions) {
                    cur.decisions = dec;
                    cur.violation = v;
                    cur.events_hash = h;
                    continue;
                }
            }
        }
        i += 1;
    }
    cur.minimised = true;
    cur.original_size = orig;
    cur
}

#[derive(Clone, Debug, Serialize, Deserialize)]
pub struct KnownFinding {
    pub property: String,
    pub invariant: String,
    pub signature: String,
    pub status: String,
    #[serde(default)]
    pub commit: Option<String>,
    pub what: String,
}

pub fn verif_root() -> PathBuf {
    std::env::var("VERIF_ROOT").map(PathBuf::from).unwrap_or_else(|_| PathBuf::from("/verif"))
}

pub fn load_known() -> Vec<KnownFinding> {
    let p = verif_root().join("known_findings.json");
    match fs::read(&p) {
        Ok(b) => serde_json::from_slice(&b).unwrap_or_default(),
        Err(_) => vec![],
    }
}

pub struct CheckArgs {
    /// merge this run's coverage into the existing evidence file under this key
    /// (second pass of a check with another build of the simulator)
    pub merge_key: Option<String>,
    pub prop: String,
    pub tier: Tier,
    pub root_seed: u64,
    pub runs: Option<u64>,
    pub workers: usize,
}

/// The parent side of a check. Returns the process exit code.
pub fn check(args: &CheckArgs) -> i32 {
    let cfg = match prop(&args.prop) {
        Some(c) => c,
        None => {
            eprintln!("unknown property {}", args.prop);
            return 2;
        }
    };
    let t0 = clock::mono_s();
    let runs = args.runs.unwrap_or(match args.tier {
        Tier::Quick => cfg.quick_runs,
        Tier::Thorough => cfg.thorough_runs,
    });
    let exe = std::env::current_exe().expect("current_exe");
    let outdir = crate::fsutil::scratch_base().join("check");
    let _ = fs::remove_dir_all(&outdir);
    fs::create_dir_all(&outdir).expect("outdir");
    let w = args.workers.max(1).min(runs.max(1) as usize);
    let per = (runs + w as u64 - 1) / w as u64;
    let mut children = vec![];
    for k in 0..w {
        let from = k as u64 * per;
        let to = ((k as u64 + 1) * per).min(runs);
        if from >= to {
            break;
        }
        let res = outdir.join(format!("w{}.json", k));
        let child = Command::new(&exe)
            .arg("worker")
            .arg(&args.prop)
            .arg(tier_str(args.tier))
            .arg(args.root_seed.to_string())
            .arg(from.to_string())
            .arg(to.to_string())
            .arg(&outdir)
            .arg(&res)
            .stdin(Stdio::null())
            .stdout(Stdio::null())
            .stderr(Stdio::null())
            .spawn()
            .expect("spawn worker");
        children.push((child, res, from, to));
    }
    let mut total = WorkerSummary::default();
    let mut nontrivial = BTreeSet::new();
    let mut harness_fail = vec![];
    let mut distinct_all = 0u64;
    for (mut child, res, from, to) in children {
        let st = child.wait().expect("wait worker");
        let ws: Option<WorkerSummary> = fs::read(&res).ok().and_then(|b| serde_json::from_slice(&b).ok());
        match ws {
            Some(ws) => {
                total.runs += ws.runs;
                total.histories += ws.histories;
                for (k, v) in ws.per_profile {
                    *total.per_profile.entry(k).or_insert(0) += v;
                }
                total.fault_points += ws.fault_points;
                total.violations += ws.violations;
                total.decisions += ws.decisions;
                total.switches += ws.switches;
                total.sim_ns += ws.sim_ns;
                distinct_all += ws.all_hashes_distinct;
                for h in ws.nontrivial_hashes {
                    nontrivial.insert(h);
                }
                for (k, v) in ws.probes {
                    *total.probes.entry(k).or_insert(0) += v;
                }
                for (k, v) in ws.faults {
                    *total.faults.entry(k).or_insert(0) += v;
                }
                total.violation_files.extend(ws.violation_files);
                harness_fail.extend(ws.harness_errors);
                if total.samples.len() < 3 {
                    total.samples.extend(ws.samples.into_iter().take(1));
                }
            }
            None => harness_fail.push(format!("worker for runs {}..{} produced no result (status {:?})", from, to, st.code())),
        }
    }

    // triage violations: one per (invariant, signature), minimise, confirm by replay in a fresh process
    let known = load_known();
    let mut reported: BTreeSet<(String, String)> = BTreeSet::new();
    let mut violation_lines = vec![];
    let mut known_lines = vec![];
    let replay_dir = verif_root().join("replays");
    // replay files of earlier runs of this property are stale
    if let (Ok(rd), true) = (fs::read_dir(&replay_dir), args.merge_key.is_none()) {
        for e in rd.flatten() {
            if e.file_name().to_string_lossy().starts_with(&format!("{}-", cfg.id)) {
                let _ = fs::remove_file(e.path());
            }
        }
    }
    let mut files = total.violation_files.clone();
    files.sort();
    for f in &files {
        let rp = match load_replay(Path::new(f)) {
            Ok(r) => r,
            Err(e) => {
                harness_fail.push(e);
                continue;
            }
        };
        let key = (rp.violation.invariant.clone(), rp.violation.signature.clone());
        if reported.contains(&key) || reported.len() >= 6 {
            continue;
        }
        reported.insert(key);
        if let Some(kf) = known.iter().find(|k| k.status == "known" && k.property == rp.property && k.invariant == rp.violation.invariant && k.signature == rp.violation.signature) {
            known_lines.push(format!("KNOWN-FINDING: property={} {} [{} {}]", rp.property, kf.what, kf.invariant, kf.signature));
            continue;
        }
        let _ = fs::create_dir_all(&replay_dir);
        let min_path = replay_dir.join(format!("{}-{}.json", rp.property, rp.seed));
        // minimise in a subprocess (keeps this process free of simulation state)
        let st = Command::new(&exe).arg("minimise").arg(f).arg(&min_path).stdout(Stdio::null()).stderr(Stdio::null()).status();
        let use_path = if matches!(st, Ok(s) if s.success()) && min_path.exists() {
            min_path.clone()
        } else {
            let _ = fs::copy(f, &min_path);
            min_path.clone()
        };
        // confirm in a fresh process
        let st = Command::new(&exe).arg("replay").arg(&use_path).arg("--quiet").stdout(Stdio::null()).stderr(Stdio::null()).status();
        match st {
            Ok(s) if s.code() == Some(1) => {
                violation_lines.push(format!("VIOLATION property={} replay={}", rp.property, use_path.display()));
                println!("  {}: {}", rp.violation.invariant, rp.violation.message);
            }
            other => {
                // try the unminimised file before giving up
                let _ = fs::copy(f, &min_path);
                let st2 = Command::new(&exe).arg("replay").arg(&min_path).arg("--quiet").stdout(Stdio::null()).stderr(Stdio::null()).status();
                if matches!(st2, Ok(s) if s.code() == Some(1)) {
                    violation_lines.push(format!("VIOLATION property={} replay={}", rp.property, min_path.display()));
                    println!("  {}: {}", rp.violation.invariant, rp.violation.message);
                } else {
                    harness_fail.push(format!("violation {} did not replay ({:?}); treated as harness error", rp.violation.invariant, other.map(|s| s.code())));
                }
            }
        }
    }
    let wall = clock::mono_s() - t0;

    // evidence
    let samples: Vec<serde_json::Value> = if total.samples.is_empty() { vec![json!("no non-trivial run in this batch")] } else { total.samples.clone() };
    let ev = json!({
        "property_id": cfg.id,
        "tier": tier_str(args.tier),
        "seed": args.root_seed,
        "level": cfg.level,
        "coverage": {
            "evaluations": total.runs,
            "distinct_nontrivial": nontrivial.len(),
            "rule": cfg.rule,
            "samples": samples,
            "runs_per_hour": if wall > 0.0 { (total.runs as f64 / wall * 3600.0) as u64 } else { 0 },
            "simulated_seconds": (total.sim_ns / 1_000_000_000) as i64,
            "scheduling_decisions": total.decisions,
            "context_switches": total.switches,
            "distinct_event_fingerprints_per_worker_sum": distinct_all,
            "fault_kinds_injected": total.faults,
            "probes": total.probes,
            "workers": w,
            "executions_per_profile": total.per_profile,
            "histories_enumerated": total.histories,
            "fault_and_crash_points_enumerated": total.fault_points,
            "components_real": cfg.real,
            "components_stub": cfg.stub,
            "known_findings_printed": known_lines,
            "harness_errors": harness_fail,
        },
        "assumptions": cfg.assumptions,
        "wall_s": wall,
        "violations": violation_lines.len(),
    });
    let evdir = verif_root().join("evidence");
    let _ = fs::create_dir_all(&evdir);
    let evp = evdir.join(format!("{}.json", cfg.id));
    let ev = match &args.merge_key {
        None => ev,
        Some(key) => {
            // second pass: keep the first pass's evidence and add this pass under `coverage.<key>`
            let mut base: serde_json::Value = fs::read(&evp).ok().and_then(|b| serde_json::from_slice(&b).ok()).unwrap_or(ev.clone());
            let extra = json!({
                "evaluations": ev["coverage"]["evaluations"],
                "distinct_nontrivial": ev["coverage"]["distinct_nontrivial"],
                "probes": ev["coverage"]["probes"],
                "harness_errors": ev["coverage"]["harness_errors"],
                "wall_s": ev["wall_s"],
                "violations": ev["violations"],
            });
            base["coverage"][key] = extra;
            let v0 = base["violations"].as_i64().unwrap_or(0) + ev["violations"].as_i64().unwrap_or(0);
            base["violations"] = json!(v0);
            let w0 = base["wall_s"].as_f64().unwrap_or(0.0) + ev["wall_s"].as_f64().unwrap_or(0.0);
            base["wall_s"] = json!(w0);
            base
        }
    };
    let tmp = evdir.join(format!(".{}.json.tmp", cfg.id));
    fs::write(&tmp, serde_json::to_vec_pretty(&ev).unwrap()).expect("write evidence");
    fs::rename(&tmp, &evp).expect("rename evidence");
    let _ = fs::remove_dir_all(&outdir);
    crate::fsutil::cleanup_process_dirs();

    println!(
        "{} {}: runs={} nontrivial_distinct={} decisions={} switches={} violations_raw={} wall={:.1}s",
        cfg.id,
        tier_str(args.tier),
        total.runs,
        nontrivial.len(),
        total.decisions,
        total.switches,
        total.violations,
        wall
    );
    for l in &known_lines {
        println!("{}", l);
    }
    for l in &violation_lines {
        println!("{}", l);
    }
    let _ = std::io::stdout().flush();
    if !violation_lines.is_empty() {
        return 1;
    }
    if !harness_fail.is_empty() {
        for h in &harness_fail {
            eprintln!("HARNESS-ERROR: {}", h);
        }
        return 2;
    }
    if total.runs < runs {
        eprintln!("HARNESS-ERROR: only {} of {} runs completed", total.runs, runs);
        return 2;
    }
    0
}

pub fn tier_str(t: Tier) -> &'static str {
    match t {
        Tier::Quick => "quick",
        Tier::Thorough => "thorough",
    }
}

pub fn parse_tier(s: &str) -> Tier {
    if s == "thorough" {
        Tier::Thorough
    } else {
        Tier::Quick
    }
}

/// Redirects this process's stdout/stderr to /dev/null (log4rs prints on some
/// error paths; the default error handler writes to stderr).
pub fn silence_stdio() {
    unsafe {
        let fd = libc::open(b"/dev/null\0".as_ptr() as *const libc::c_char, libc::O_WRONLY);
        if fd >= 0 {
            libc::dup2(fd, 1);
            libc::dup2(fd, 2);
            libc::close(fd);
        }
    }
}

pub fn init_process() {
    kernel::install_panic_hook();
}


/// Determinism self-test: executes the same run indices in differently
/// partitioned sets of fresh worker processes and compares the event-log
/// fingerprint of every run.
pub fn determinism(prop_id: &str, tier: Tier, root: u64, runs: u64) -> i32 {
    let exe = std::env::current_exe().expect("current_exe");
    let mut results: Vec<Vec<u64>> = vec![];
    for (round, w) in [16usize, 5, 1].iter().enumerate() {
        let outdir = crate::fsutil::scratch_base().join(format!("det{}", round));
        let _ = fs::remove_dir_all(&outdir);
        fs::create_dir_all(&outdir).unwrap();
        let per = (runs + *w as u64 - 1) / *w as u64;
        let mut children = vec![];
        for k in 0..*w {
            let from = k as u64 * per;
            let to = ((k as u64 + 1) * per).min(runs);
            if from >= to {
                break;
            }
            let res = outdir.join(format!("w{}.json", k));
            let child = Command::new(&exe)
                .arg("worker").arg(prop_id).arg(tier_str(tier)).arg(root.to_string()).arg(from.to_string()).arg(to.to_string()).arg(&outdir).arg(&res).arg("--hashes")
                .stdin(Stdio::null()).stdout(Stdio::null()).stderr(Stdio::null()).spawn().expect("spawn");
            children.push((child, res));
        }
        let mut hashes = vec![];
        for (mut c, res) in children {
            let _ = c.wait();
            match fs::read(&res).ok().and_then(|b| serde_json::from_slice::<WorkerSummary>(&b).ok()) {
                Some(ws) => hashes.extend(ws.hashes),
                None => {
                    println!("determinism {}: a worker produced no result", prop_id);
                    return 2;
                }
            }
        }
        let _ = fs::remove_dir_all(&outdir);
        results.push(hashes);
    }
    let n = results[0].len();
    let mut diverging = 0;
    for r in &results[1..] {
        if r.len() != n {
            println!("determinism {}: different number of executions ({} vs {})", prop_id, r.len(), n);
            return 1;
        }
        diverging += r.iter().zip(results[0].iter()).filter(|(a, b)| a != b).count();
    }
    let distinct: BTreeSet<u64> = results[0].iter().copied().collect();
    println!("determinism {}: {} executions x 3 partitionings (16/5/1 processes), {} distinct fingerprints, {} diverging", prop_id, n, distinct.len(), diverging);
    if diverging == 0 { 0 } else { 1 }
}
