//! The simulation kernel: a baton scheduler over real OS threads, the fault
//! plan, the event log and its fingerprint.
//!
//! Exactly one simulated thread runs at any time. At every decision point the
//! running thread hands the baton to the kernel, which chooses the next thread
//! from its decision source (a seeded PRNG policy during search, an explicit
//! list during replay) and parks everybody else. Who runs is therefore never
//! decided by the OS, and a run is a pure function of (scenario, decisions).

use std::{
    cell::Cell,
    collections::HashMap,
    io,
    panic::{self, AssertUnwindSafe},
    path::Path,
    sync::{Arc, Condvar, Mutex, MutexGuard},
    time::Duration,
};

use serde::{Deserialize, Serialize};

use crate::{
    clock,
    rng::{Fnv, Rng},
};

thread_local! {
    static TID: Cell<Option<usize>> = const { Cell::new(None) };
    static LAST_PANIC: std::cell::RefCell<Option<String>> = const { std::cell::RefCell::new(None) };
}

/// Payload used to unwind simulated threads when a run is torn down.
pub struct SimAbort;

pub fn install_panic_hook() {
    panic::set_hook(Box::new(|info| {
        let loc = info
            .location()
            .map(|l| format!("{}:{}", l.file(), l.line()))
            .unwrap_or_else(|| "?".into());
        let msg = if let Some(s) = info.payload().downcast_ref::<&str>() {
            (*s).to_string()
        } else if let Some(s) = info.payload().downcast_ref::<String>() {
            s.clone()
        } else {
            "<non-string panic>".to_string()
        };
        LAST_PANIC.with(|p| *p.borrow_mut() = Some(format!("{}: {}", loc, msg)));
    }));
}

pub fn take_last_panic() -> Option<String> {
    LAST_PANIC.with(|p| p.borrow_mut().take())
}

#[derive(Clone, Debug, Serialize, Deserialize, PartialEq)]
pub enum Policy {
    /// keep running the current thread with probability `stay`/100
    Walk { stay: u8 },
    /// priority scheduling with `changes` random priority change points
    Pct { changes: u8, horizon: u32 },
    RoundRobin,
    /// thread `victim` (index among eligible order) only runs when nobody else can
    Starve { victim: u8 },
}

pub enum Source {
    Prng { rng: Rng, policy: Policy, prio: Vec<u32>, change_at: Vec<u64> },
    List { list: Vec<u32>, pos: usize, fallbacks: u64 },
}

impl Source {
    pub fn prng(seed: u64, policy: Policy) -> Source {
        let mut rng = Rng::new(seed);
        let mut change_at = vec![];
        if let Policy::Pct { changes, horizon } = &policy {
            for _ in 0..*changes {
                change_at.push(rng.below(*horizon as u64 + 1));
            }
        }
        Source::Prng { rng, policy, prio: vec![], change_at }
    }
    pub fn list(list: Vec<u32>) -> Source {
        Source::List { list, pos: 0, fallbacks: 0 }
    }
}

#[derive(Clone, Copy, Debug, PartialEq)]
enum Status {
    /// registered, not yet started or running normally
    Runnable,
    Blocked { at: u64 },
    Sleeping { wake_ns: i64 },
    Finished,
}

struct Th {
    status: Status,
    cv: Arc<Condvar>,
    daemon: bool,
    name: String,
}

#[derive(Clone, Debug, Serialize, Deserialize, PartialEq)]
pub struct FaultSpec {
    pub site: String,
    /// 1-based occurrence number of the site within the run
    pub nth: u32,
    /// errno to return
    pub errno: i32,
}

#[derive(Clone, Debug, Serialize, Deserialize, PartialEq)]
pub struct CrashSpec {
    pub site: String,
    pub nth: u32,
}

#[derive(Clone, Debug, PartialEq)]
pub enum Abort {
    Deadlock(String),
    StepCap,
    Stall,
}

pub type CrashCb = Box<dyn Fn(&str, u32) + Send + Sync>;

struct State {
    threads: Vec<Th>,
    current: Option<usize>,
    progress: u64,
    pending_spawns: usize,
    decisions: Vec<u32>,
    source: Source,
    hash: Fnv,
    trace: Option<Vec<String>>,
    seq: u64,
    steps: u64,
    step_cap: u64,
    switches: u64,
    faults: Vec<FaultSpec>,
    crash: Option<CrashSpec>,
    site_counts: HashMap<String, u32>,
    site_hits: Vec<(String, u32)>,
    faults_fired: Vec<FaultSpec>,
    fault_tids: Vec<usize>,
    crash_fired: bool,
    rand_script: Vec<u64>,
    rand_pos: usize,
    shutdown: bool,
    abort: Option<Abort>,
    done: bool,
    counters: HashMap<&'static str, u64>,
    clock_jumps: u64,
    sleep_log: Vec<(usize, i64, u64)>,
    /// thread ids in the order in which they resumed after a simulated sleep
    wake_log: Vec<usize>,
}

pub struct Kernel {
    st: Mutex<State>,
    done_cv: Condvar,
    spawn_cv: Condvar,
    crash_cb: Mutex<Option<CrashCb>>,
}

static KERNEL: Mutex<Option<Arc<Kernel>>> = Mutex::new(None);

pub fn current() -> Option<Arc<Kernel>> {
    KERNEL.lock().unwrap_or_else(|e| e.into_inner()).clone()
}

pub fn my_tid() -> Option<usize> {
    TID.with(|t| t.get())
}

#[derive(Debug, Default, Clone)]
pub struct RunSummary {
    pub decisions: Vec<u32>,
    pub events_hash: u64,
    pub trace: Option<Vec<String>>,
    pub steps: u64,
    pub switches: u64,
    pub abort: Option<String>,
    pub site_hits: Vec<(String, u32)>,
    pub faults_fired: Vec<FaultSpec>,
    pub crash_fired: bool,
    pub counters: HashMap<&'static str, u64>,
    pub list_fallbacks: u64,
    pub clock_jumps: u64,
    pub threads: usize,
}

pub struct KernelConfig {
    pub source: Source,
    pub step_cap: u64,
    pub trace: bool,
    pub faults: Vec<FaultSpec>,
    pub crash: Option<CrashSpec>,
    pub rand_script: Vec<u64>,
}

impl Kernel {
    /// Creates the kernel for one run and installs it as the hook target.
    pub fn start(cfg: KernelConfig) -> Arc<Kernel> {
        let k = Arc::new(Kernel {
            st: Mutex::new(State {
                threads: vec![],
                current: None,
                progress: 0,
                pending_spawns: 0,
                decisions: vec![],
                source: cfg.source,
                hash: Fnv::default(),
                trace: if cfg.trace { Some(vec![]) } else { None },
                seq: 0,
                steps: 0,
                step_cap: cfg.step_cap,
                switches: 0,
                faults: cfg.faults,
                crash: cfg.crash,
                site_counts: HashMap::new(),
                site_hits: vec![],
                faults_fired: vec![],
                fault_tids: vec![],
                crash_fired: false,
                rand_script: cfg.rand_script,
                rand_pos: 0,
                shutdown: false,
                abort: None,
                done: false,
                counters: HashMap::new(),
                clock_jumps: 0,
                sleep_log: vec![],
                wake_log: vec![],
            }),
            done_cv: Condvar::new(),
            spawn_cv: Condvar::new(),
            crash_cb: Mutex::new(None),
        });
        *KERNEL.lock().unwrap_or_else(|e| e.into_inner()) = Some(k.clone());
        log4rs::verif::install(k.clone());
        k
    }

    pub fn set_crash_cb(&self, cb: CrashCb) {
        *self.crash_cb.lock().unwrap() = Some(cb);
    }

    /// Ends the run: uninstalls the hooks and returns what was recorded.
    pub fn finish(self: &Arc<Kernel>) -> RunSummary {
        log4rs::verif::uninstall();
        *KERNEL.lock().unwrap_or_else(|e| e.into_inner()) = None;
        *self.crash_cb.lock().unwrap() = None;
        let st = self.lock();
        RunSummary {
            decisions: st.decisions.clone(),
            events_hash: st.hash.0,
            trace: st.trace.clone(),
            steps: st.steps,
            switches: st.switches,
            abort: st.abort.as_ref().map(|a| format!("{:?}", a)),
            site_hits: st.site_hits.clone(),
            faults_fired: st.faults_fired.clone(),
            crash_fired: st.crash_fired,
            counters: st.counters.clone(),
            list_fallbacks: match &st.source {
                Source::List { fallbacks, .. } => *fallbacks,
                _ => 0,
            },
            clock_jumps: st.clock_jumps,
            threads: st.threads.len(),
        }
    }

    fn lock(&self) -> MutexGuard<'_, State> {
        self.st.lock().unwrap_or_else(|e| e.into_inner())
    }

    /// Lock for calls made by the running simulated thread: first waits until
    /// every thread it announced with `will_spawn` has registered, so that
    /// neither the event order nor thread ids depend on OS timing.
    fn lock_synced(&self) -> MutexGuard<'_, State> {
        let mut st = self.lock();
        if my_tid().is_some() {
            while st.pending_spawns > 0 && !st.shutdown {
                st = self.spawn_cv.wait(st).unwrap_or_else(|e| e.into_inner());
            }
        }
        st
    }

    /// Appends an event to the log (hash always, text when tracing).
    pub fn note(&self, kind: &str, data: &str) {
        let mut st = self.lock_synced();
        Self::note_locked(&mut st, kind, data);
    }

    fn note_locked(st: &mut State, kind: &str, data: &str) {
        st.seq += 1;
        let tid = my_tid().map(|t| t as u64).unwrap_or(u64::MAX);
        st.hash.write_u64(tid);
        st.hash.write(kind.as_bytes());
        st.hash.write(&[0]);
        st.hash.write(data.as_bytes());
        st.hash.write(&[1]);
        let seq = st.seq;
        if let Some(t) = st.trace.as_mut() {
            if t.len() < 20_000 {
                let who = if tid == u64::MAX { "-".to_string() } else { tid.to_string() };
                t.push(format!("{} t{} {} {}", seq, who, kind, data));
            }
        }
    }

    /// Global event sequence number (monotone; used to stamp invoke/return).
    pub fn stamp(&self) -> u64 {
        let mut st = self.lock_synced();
        st.seq += 1;
        st.seq
    }

    pub fn count(&self, name: &'static str, n: u64) {
        let mut st = self.lock();
        *st.counters.entry(name).or_insert(0) += n;
    }

    /// (start instant, duration) of every simulated sleep of the threads with this name.
    pub fn sleep_log(&self, name: &str) -> Vec<(i64, u64)> {
        let st = self.lock();
        st.sleep_log.iter().filter(|(t, _, _)| st.threads[*t].name == name).map(|(_, a, d)| (*a, *d)).collect()
    }

    /// How many simulated sleeps of the threads with this name have ended with the
    /// thread running again (it runs on from there without interruption up to
    /// its next decision point).
    pub fn wake_count(&self, name: &str) -> usize {
        let st = self.lock();
        st.wake_log.iter().filter(|t| st.threads[**t].name == name).count()
    }

    /// Whether a thread with this name exists and has not finished.
    pub fn thread_alive(&self, name: &str) -> bool {
        let st = self.lock_synced();
        st.threads.iter().any(|t| t.name == name && t.status != Status::Finished)
    }

    /// "Once faults stop": no injected fault or crash fires after this call.
    pub fn stop_faults(&self) {
        let mut st = self.lock();
        st.faults.clear();
        st.crash = None;
    }

    pub fn any_fault_or_crash_fired(&self) -> bool {
        let st = self.lock();
        !st.faults_fired.is_empty() || st.crash_fired
    }

    pub fn last_fault_site(&self) -> Option<String> {
        self.lock().faults_fired.last().map(|f| f.site.clone())
    }

    /// Number of injected faults that fired on the calling thread so far.
    pub fn faults_fired_count(&self) -> usize {
        let me = my_tid().unwrap_or(usize::MAX);
        self.lock().fault_tids.iter().filter(|t| **t == me).count()
    }

    pub fn abort_reason(&self) -> Option<Abort> {
        self.lock().abort.clone()
    }

    // ---------------------------------------------------------------- phases

    /// Runs the given bodies as simulated threads until all of them (and all
    /// non-daemon threads they caused to be spawned) have finished. Returns
    /// the panic messages of bodies that panicked (other than teardown).
    pub fn run_phase(
        self: &Arc<Kernel>,
        bodies: Vec<Box<dyn FnOnce() + Send>>,
        watchdog_s: f64,
    ) -> Vec<(usize, String)> {
        let panics: Arc<Mutex<Vec<(usize, String)>>> = Arc::new(Mutex::new(vec![]));
        let mut handles = vec![];
        let first_tid;
        {
            let mut st = self.lock();
            if st.shutdown {
                return vec![];
            }
            st.done = false;
            first_tid = st.threads.len();
            for i in 0..bodies.len() {
                st.threads.push(Th {
                    status: Status::Runnable,
                    cv: Arc::new(Condvar::new()),
                    daemon: false,
                    name: format!("w{}", i),
                });
            }
        }
        for (i, body) in bodies.into_iter().enumerate() {
            let tid = first_tid + i;
            let k = self.clone();
            let panics = panics.clone();
            handles.push(
                std::thread::Builder::new()
                    .name(format!("sim{}", tid))
                    .stack_size(512 * 1024)
                    .spawn(move || {
                        TID.with(|t| t.set(Some(tid)));
                        let r = panic::catch_unwind(AssertUnwindSafe(|| {
                            k.wait_for_baton(tid);
                            body();
                        }));
                        if let Err(p) = r {
                            if p.downcast_ref::<SimAbort>().is_none() {
                                let msg = take_last_panic().unwrap_or_else(|| "panic".into());
                                panics.lock().unwrap().push((tid, msg));
                            }
                        }
                        k.thread_finished(tid);
                        TID.with(|t| t.set(None));
                    })
                    .expect("spawn sim thread"),
            );
        }
        // start: first decision taken on behalf of the coordinator
        {
            let mut st = self.lock();
            let next = Self::choose(&mut st, None, "phase.start");
            match next {
                Some(n) => {
                    st.current = Some(n);
                    st.threads[n].cv.notify_one();
                }
                None => {
                    st.done = true;
                }
            }
        }
        // wait for completion or watchdog
        {
            let mut st = self.lock();
            let t0 = clock::mono_s();
            while !st.done {
                let (g, _) = self
                    .done_cv
                    .wait_timeout(st, Duration::from_millis(200))
                    .unwrap_or_else(|e| e.into_inner());
                st = g;
                if !st.done && clock::mono_s() - t0 > watchdog_s {
                    st.abort = Some(Abort::Stall);
                    st.shutdown = true;
                    for t in &st.threads {
                        t.cv.notify_all();
                    }
                    self.spawn_cv.notify_all();
                    return vec![(usize::MAX, "STALL".into())];
                }
            }
        }
        for h in handles {
            let _ = h.join();
        }
        let v = panics.lock().unwrap().clone();
        v
    }

    /// Tears down daemon threads (e.g. a reloader) at the end of a run.
    pub fn shutdown(&self) {
        let mut st = self.lock();
        st.shutdown = true;
        for t in &st.threads {
            t.cv.notify_all();
        }
        self.spawn_cv.notify_all();
        // give daemon threads (parked in a hook) the time to unwind
        let t0 = clock::mono_s();
        while st.threads.iter().any(|t| t.status != Status::Finished) && clock::mono_s() - t0 < 2.0 {
            let (g, _) = self
                .done_cv
                .wait_timeout(st, Duration::from_millis(5))
                .unwrap_or_else(|e| e.into_inner());
            st = g;
        }
    }

    fn wait_for_baton(&self, me: usize) {
        let mut st = self.lock();
        let cv = st.threads[me].cv.clone();
        while st.current != Some(me) && !st.shutdown {
            st = cv.wait(st).unwrap_or_else(|e| e.into_inner());
        }
        if st.shutdown {
            drop(st);
            panic::resume_unwind(Box::new(SimAbort));
        }
    }

    fn thread_finished(&self, me: usize) {
        let mut st = self.lock();
        st.threads[me].status = Status::Finished;
        st.progress += 1;
        if st.shutdown {
            let all = st.threads.iter().all(|t| t.status == Status::Finished || t.daemon);
            if all {
                st.done = true;
                self.done_cv.notify_all();
            }
            return;
        }
        while st.pending_spawns > 0 && !st.shutdown {
            st = self.spawn_cv.wait(st).unwrap_or_else(|e| e.into_inner());
        }
        let all = st.threads.iter().all(|t| t.status == Status::Finished || t.daemon);
        if all {
            st.current = None;
            st.done = true;
            self.done_cv.notify_all();
            return;
        }
        Self::note_locked(&mut st, "exit", "");
        match Self::choose(&mut st, None, "thread.exit") {
            Some(n) => {
                st.current = Some(n);
                st.threads[n].cv.notify_one();
            }
            None => {
                // deadlock among the remaining threads: tear down
                st.shutdown = true;
                for t in &st.threads {
                    t.cv.notify_all();
                }
                st.done = true;
                self.done_cv.notify_all();
            }
        }
    }

    // ------------------------------------------------------------- decisions

    fn eligible(st: &State) -> Vec<usize> {
        let now = clock::now_ns();
        let mut v = vec![];
        for (i, t) in st.threads.iter().enumerate() {
            let ok = match t.status {
                Status::Runnable => true,
                Status::Blocked { at } => st.progress > at,
                Status::Sleeping { wake_ns } => wake_ns <= now,
                Status::Finished => false,
            };
            if ok {
                v.push(i);
            }
        }
        v
    }

    /// Chooses the next thread to run. `me` is the yielding thread if it is
    /// still a candidate. Returns None on deadlock (abort recorded).
    fn choose(st: &mut State, me: Option<usize>, site: &str) -> Option<usize> {
        let mut el = Self::eligible(st);
        if el.is_empty() {
            // discrete-event jump: wake the earliest sleeper(s), but only
            // while a non-daemon thread still has work to do
            let nondaemon_left = st
                .threads
                .iter()
                .any(|t| !t.daemon && t.status != Status::Finished);
            let wake = st
                .threads
                .iter()
                .filter_map(|t| match t.status {
                    Status::Sleeping { wake_ns } => Some(wake_ns),
                    _ => None,
                })
                .min();
            match wake {
                Some(w) if nondaemon_left => {
                    clock::set_ns(w);
                    st.clock_jumps += 1;
                    Self::note_locked(st, "clock.jump", &w.to_string());
                    el = Self::eligible(st);
                }
                _ => {}
            }
        }
        if el.is_empty() {
            let desc = st
                .threads
                .iter()
                .enumerate()
                .map(|(i, t)| format!("{}:{}:{:?}", i, t.name, t.status))
                .collect::<Vec<_>>()
                .join(" ");
            st.abort = Some(Abort::Deadlock(format!("at {}: {}", site, desc)));
            return None;
        }
        let steps = st.steps;
        let nthreads = st.threads.len();
        let next = match &mut st.source {
            Source::List { list, pos, fallbacks } => {
                let want = list.get(*pos).copied();
                *pos += 1;
                match want {
                    Some(w) if el.contains(&(w as usize)) => w as usize,
                    _ => {
                        *fallbacks += 1;
                        match me {
                            Some(m) if el.contains(&m) => m,
                            _ => el[0],
                        }
                    }
                }
            }
            Source::Prng { rng, policy, prio, change_at } => match policy {
                Policy::Walk { stay } => {
                    let stay_ok = me.map(|m| el.contains(&m)).unwrap_or(false);
                    if stay_ok && rng.below(100) < *stay as u64 {
                        me.unwrap()
                    } else {
                        el[rng.below(el.len() as u64) as usize]
                    }
                }
                Policy::RoundRobin => {
                    let m = me.unwrap_or(usize::MAX);
                    *el.iter().find(|&&t| m != usize::MAX && t > m).unwrap_or(&el[0])
                }
                Policy::Starve { victim } => {
                    let v = (*victim as usize) % nthreads.max(1);
                    let others: Vec<usize> = el.iter().copied().filter(|&t| t != v).collect();
                    if others.is_empty() {
                        el[0]
                    } else {
                        let stay_ok = me.map(|m| others.contains(&m)).unwrap_or(false);
                        if stay_ok && rng.below(100) < 60 {
                            me.unwrap()
                        } else {
                            others[rng.below(others.len() as u64) as usize]
                        }
                    }
                }
                Policy::Pct { .. } => {
                    while prio.len() < nthreads {
                        // new threads get a random priority above the "lowered" band
                        prio.push(1000 + rng.below(1_000_000) as u32);
                    }
                    if let Some(m) = me {
                        if change_at.contains(&steps) {
                            // lower the running thread below everybody
                            let minp = prio.iter().copied().min().unwrap_or(1);
                            prio[m] = minp.saturating_sub(1);
                        }
                    }
                    *el.iter().max_by_key(|&&t| (prio[t], usize::MAX - t)).unwrap()
                }
            },
        };
        st.decisions.push(next as u32);
        if Some(next) != me {
            st.switches += 1;
        }
        Some(next)
    }

    /// The core yield. `status` is what the calling thread is while it waits.
    fn yield_with(&self, me: usize, site: &str, status: Status) {
        let mut st = self.lock();
        if st.shutdown {
            drop(st);
            panic::resume_unwind(Box::new(SimAbort));
        }
        while st.pending_spawns > 0 && !st.shutdown {
            st = self.spawn_cv.wait(st).unwrap_or_else(|e| e.into_inner());
        }
        st.steps += 1;
        if st.steps > st.step_cap {
            st.abort = Some(Abort::StepCap);
            Self::teardown(&mut st);
            self.done_cv.notify_all();
            drop(st);
            panic::resume_unwind(Box::new(SimAbort));
        }
        if !matches!(status, Status::Blocked { .. }) {
            st.progress += 1;
        }
        st.threads[me].status = match status {
            Status::Blocked { .. } => Status::Blocked { at: st.progress },
            s => s,
        };
        Self::note_locked(&mut st, "at", site);
        let next = Self::choose(&mut st, Some(me), site);
        match next {
            None => {
                Self::teardown(&mut st);
                self.done_cv.notify_all();
                drop(st);
                panic::resume_unwind(Box::new(SimAbort));
            }
            Some(n) if n == me => {}
            Some(n) => {
                st.current = Some(n);
                st.threads[n].cv.notify_one();
                let cv = st.threads[me].cv.clone();
                while st.current != Some(me) && !st.shutdown {
                    st = cv.wait(st).unwrap_or_else(|e| e.into_inner());
                }
                if st.shutdown {
                    drop(st);
                    panic::resume_unwind(Box::new(SimAbort));
                }
            }
        }
        st.threads[me].status = Status::Runnable;
    }

    fn teardown(st: &mut State) {
        st.shutdown = true;
        for t in &st.threads {
            t.cv.notify_all();
        }
    }

    /// A plain decision point for harness-side seams.
    pub fn point_here(&self, site: &str) {
        if let Some(me) = my_tid() {
            self.yield_with(me, site, Status::Runnable);
        }
    }

    /// Parks the calling harness thread until `ready()` holds (a blocked
    /// thread becomes eligible again only after another thread made progress).
    pub fn block_here(&self, site: &str, ready: &dyn Fn() -> bool) {
        if let Some(me) = my_tid() {
            while !ready() {
                self.yield_with(me, site, Status::Blocked { at: 0 });
            }
        }
    }

    /// Simulated sleep for harness threads.
    pub fn sleep_here(&self, d: Duration) {
        if let Some(me) = my_tid() {
            let wake = clock::now_ns().saturating_add(d.as_nanos().min(i64::MAX as u128) as i64);
            self.note("sleep", &d.as_nanos().to_string());
            self.lock_synced().sleep_log.push((me, clock::now_ns(), d.as_nanos().min(u64::MAX as u128) as u64));
            self.yield_with(me, "sleep", Status::Sleeping { wake_ns: wake });
            self.lock().wake_log.push(me);
        }
    }

    fn site_hit(&self, site: &str) -> (u32, Option<i32>, bool) {
        let mut st = self.lock_synced();
        let n = {
            let c = st.site_counts.entry(site.to_string()).or_insert(0);
            *c += 1;
            *c
        };
        st.site_hits.push((site.to_string(), n));
        let fault = st
            .faults
            .iter()
            .find(|f| f.site == site && f.nth == n)
            .cloned();
        let crash = st
            .crash
            .as_ref()
            .map(|c| c.site == site && c.nth == n)
            .unwrap_or(false);
        if let Some(f) = &fault {
            st.faults_fired.push(f.clone());
            st.fault_tids.push(my_tid().unwrap_or(usize::MAX));
            Self::note_locked(&mut st, "fault", &format!("{}#{} errno={}", site, n, f.errno));
        }
        if crash {
            st.crash_fired = true;
            Self::note_locked(&mut st, "crash", &format!("{}#{}", site, n));
        }
        (n, fault.map(|f| f.errno), crash)
    }
}

/// Free helpers for harness code running on simulated threads.
pub fn point(site: &str) {
    if my_tid().is_some() {
        if let Some(k) = current() {
            k.point_here(site);
        }
    }
}

pub fn sim_sleep(d: Duration) {
    if my_tid().is_some() {
        if let Some(k) = current() {
            k.sleep_here(d);
        }
    }
}

pub fn note(kind: &str, data: &str) {
    if let Some(k) = current() {
        k.note(kind, data);
    }
}

pub fn stamp() -> u64 {
    current().map(|k| k.stamp()).unwrap_or(0)
}

pub fn count(name: &'static str, n: u64) {
    if let Some(k) = current() {
        k.count(name, n);
    }
}

impl log4rs::verif::Hooks for Kernel {
    fn point(&self, site: &'static str) {
        if let Some(me) = my_tid() {
            let (n, _f, crash) = self.site_hit(site);
            self.yield_with(me, site, Status::Runnable);
            if crash {
                if let Some(cb) = self.crash_cb.lock().unwrap().as_ref() {
                    cb(site, n);
                }
            }
        }
    }

    fn fs_step(&self, site: &'static str, _a: &Path, _b: Option<&Path>) -> io::Result<()> {
        if let Some(me) = my_tid() {
            let (n, fault, crash) = self.site_hit(site);
            self.yield_with(me, site, Status::Runnable);
            if crash {
                if let Some(cb) = self.crash_cb.lock().unwrap().as_ref() {
                    cb(site, n);
                }
            }
            if let Some(errno) = fault {
                return Err(io::Error::from_raw_os_error(errno));
            }
        }
        Ok(())
    }

    fn before_lock(&self, site: &'static str, is_locked: &dyn Fn() -> bool) {
        if let Some(me) = my_tid() {
            // a decision point before competing for the lock
            self.yield_with(me, site, Status::Runnable);
            while is_locked() {
                self.count("blocked_on_lock", 1);
                self.yield_with(me, site, Status::Blocked { at: 0 });
            }
        }
    }

    fn block_until(&self, site: &'static str, ready: &dyn Fn() -> bool) {
        if let Some(me) = my_tid() {
            self.yield_with(me, site, Status::Runnable);
            while !ready() {
                self.count("blocked_on_cond", 1);
                self.yield_with(me, site, Status::Blocked { at: 0 });
            }
        }
    }

    fn rand_below(&self, _site: &'static str, n: u64) -> Option<u64> {
        if my_tid().is_some() {
            let mut st = self.lock();
            if st.rand_script.is_empty() {
                return Some(0);
            }
            let v = st.rand_script[st.rand_pos % st.rand_script.len()];
            st.rand_pos += 1;
            Some(v % n.max(1))
        } else {
            None
        }
    }

    fn sleep(&self, d: Duration) -> bool {
        if my_tid().is_some() {
            self.sleep_here(d);
            true
        } else {
            false
        }
    }

    fn will_spawn(&self, _what: &'static str) {
        if my_tid().is_some() {
            let mut st = self.lock();
            st.pending_spawns += 1;
        }
    }

    fn thread_enter(&self, what: &'static str) {
        if my_tid().is_some() {
            return;
        }
        let tid;
        {
            let mut st = self.lock();
            if st.pending_spawns == 0 || st.shutdown {
                return;
            }
            tid = st.threads.len();
            st.threads.push(Th {
                status: Status::Runnable,
                cv: Arc::new(Condvar::new()),
                daemon: what == "reloader",
                name: what.to_string(),
            });
            st.pending_spawns -= 1;
            Self::note_locked(&mut st, "spawned", what);
            self.spawn_cv.notify_all();
        }
        TID.with(|t| t.set(Some(tid)));
        self.wait_for_baton(tid);
    }

    fn thread_exit(&self) {
        if let Some(me) = my_tid() {
            TID.with(|t| t.set(None));
            self.thread_finished(me);
        }
    }
}
